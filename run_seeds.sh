#!/bin/bash
# Thorough tier of the transport worlds with further PRNG values; one line per run.
cd "$(dirname "$0")"
rc=0
run() { out=$(./check $1 --tier thorough --seed $2 2>&1); e=$?; echo "== $1 seed=$2 exit=$e :: $(echo "$out" | grep -v '^  "' | grep -i "tier=\|VIOLATION\|CHECK-ERROR\|KNOWN\|trouble" | head -4 | cut -c1-300 | tr '\n' ' ')"; [ $e -ne 0 ] && rc=1; }
run C13 1
for p in C13 C01 C03 C02 C08 C10 C20 C04 C09 C11 C12 C05; do run $p ${1:-2}; done
exit $rc
