#!/usr/bin/env python3
"""Confirms a seeded change: demo passes on the clean tree, fails with the patch, suite passes with the patch.

  ./confirm_mut.py <outdir> <pkgdir> <run-regex> <demo-file>=<dest-rel> [...]
"""
import os, shutil, subprocess, sys, tempfile


def run(cmd, cwd):
    env = dict(os.environ)
    env.update({"GOFLAGS": "-mod=mod", "GOPROXY": "off", "GOSUMDB": "off"})
    r = subprocess.run(cmd, shell=True, cwd=cwd, env=env, stdout=subprocess.PIPE, stderr=subprocess.STDOUT, text=True, timeout=1200)
    return r.returncode, r.stdout


def main():
    out, pkg, regex = sys.argv[1], sys.argv[2], sys.argv[3]
    demos = [a.split("=") for a in sys.argv[4:]]
    os.makedirs("/tmp/scratch", exist_ok=True)
    wt = tempfile.mkdtemp(prefix="confirm-", dir="/tmp/scratch")
    os.rmdir(wt)
    ok = True
    try:
        subprocess.run(["git", "-C", "/repo", "worktree", "add", "-f", "--detach", wt, "HEAD"], check=True, stdout=subprocess.DEVNULL, stderr=subprocess.DEVNULL)
        for src, dst in demos:
            shutil.copy(os.path.join(out, src), os.path.join(wt, dst))
        rc, o = run("go test -vet=off -count=1 -run '%s' %s" % (regex, pkg), wt)
        print("clean tree + demo: rc=%d %s" % (rc, "PASS" if rc == 0 else "FAIL"))
        if rc != 0:
            print(o[-1200:]); ok = False
        rc, o = run("git apply %s || git apply --3way %s" % (os.path.abspath(os.path.join(out, "patch.diff")), os.path.abspath(os.path.join(out, "patch.diff"))), wt)
        if rc != 0:
            print("patch does not apply:", o); return 3
        rc, o = run("go test -vet=off -count=1 -run '%s' %s" % (regex, pkg), wt)
        print("patched tree + demo: rc=%d %s" % (rc, "FAIL (as wanted)" if rc != 0 else "PASS (demo does not detect)"))
        if rc == 0:
            ok = False
        else:
            print("   " + "\n   ".join([l for l in o.splitlines() if "FAIL" in l or "Error" in l or "rror:" in l][:4])[:600])
        for src, dst in demos:
            os.remove(os.path.join(wt, dst))
        rc, o = run("go build ./... && go test -vet=off -count=1 ./...", wt)
        print("patched tree, suite: rc=%d %s" % (rc, "PASS" if rc == 0 else "FAIL"))
        if rc != 0:
            print(o[-800:]); ok = False
        print("CONFIRMED" if ok else "NOT-CONFIRMED")
        return 0 if ok else 1
    finally:
        subprocess.run(["git", "-C", "/repo", "worktree", "remove", "--force", wt], stdout=subprocess.DEVNULL, stderr=subprocess.DEVNULL)
        shutil.rmtree(wt, ignore_errors=True)
        subprocess.run(["git", "-C", "/repo", "worktree", "prune"], stdout=subprocess.DEVNULL, stderr=subprocess.DEVNULL)


if __name__ == "__main__":
    sys.exit(main())
