"""Per-property metadata used by ./check (test name, budgets, evidence wording)."""

REAL_SYSTEM = ["hc (ipTransport, hap, hap/http, hap/endpoint, hap/pair, crypto/*, characteristic, service, accessory, db, util, event) built from /repo's working tree with -tags verif",
               "Go 1.26.8 net/http server, encoding/json, golang.org/x/crypto, tadglines/srp, xiam/to",
               "real files in a private temporary directory"]
STUB_SYSTEM = ["TCP (in-memory listener and connections owned by the scheduler)", "mDNS responder (records TXT)",
               "clock (testing/synctest)", "entropy (testing/cryptotest seeded ChaCha8)",
               "peer: reference controller / adversary written from the HAP specification (verif/sim/ref)"]

PROPS = {
    "C04": {
        "test": "TestC04", "level": "exploration",
        "budget": {"quick": 25, "thorough": 600},
        "rule": "rapid-generated scenarios (setup code, controller id, key pairs via seed, accessory count, pre-seeded or on-the-wire pairing, other stored controllers, request list with sizes from one to several frames, schedule vector deciding goroutine release order and TCP segmentation); non-trivial = the reference controller completed the whole flow; distinct = distinct (scenario shape, event-log hash)",
        "real": REAL_SYSTEM, "stub": STUB_SYSTEM,
        "assumptions": ["x/crypto, std crypto, math/big, encoding/json and net/http are trusted and shared by both sides",
                        "SRP integers inside M1 and K use the minimal big-endian encoding (libsrp convention); the padding ambiguity for values with a leading zero byte is not judged",
                        "interleavings are explored at park-point granularity (connection operations, SetCryptographer, lock probe), not inside straight-line code"],
    },
}

HOOK_COMMITS = ["c5f0c72"]

PURE = "pure function of its input: no schedule, clock, fault, I/O or interleaving for a simulator to own (DESIGN.md section 8); no other technique is substituted"
NOT_APPLICABLE = [
    {"property_id": "C14", "reason": "ids are a " + PURE},
    {"property_id": "C15", "reason": "static comparison of constructors with gen/metadata.json; a " + PURE},
    {"property_id": "C16", "reason": "TLV8 container codec over byte strings; a " + PURE},
    {"property_id": "C17", "reason": "struct TLV8 codec over values and byte strings; a " + PURE},
]
_ALL = ["C%02d" % i for i in range(1, 21)]


def not_applicable():
    out = list(NOT_APPLICABLE)
    done = {e["property_id"] for e in out}
    for p in _ALL:
        if p not in PROPS and p not in done:
            out.append({"property_id": p, "reason": "applicable, but its check is not built yet in this revision (planned in DESIGN.md section 7); not claimed until it exists"})
    return out

PROPS["C04"].update({
    "level_text": "Seeded exploration: an independent reference controller (own TLV8, SRP-6a, HKDF, ChaCha20-Poly1305, Ed25519/X25519 glue, own framing and HTTP reader) pairs, verifies and exchanges encrypted requests with the real transport over the simulated network, for generated codes, identities, storage contents, request sizes, TCP segmentations and goroutine schedules (incl. the cryptographer hand-over); every proof, signature and frame is checked by the reference. Sampling, not proof.",
    "level_note": "Trusted: x/crypto and std crypto primitives, math/big, encoding/json, net/http (Go 1.26.8). Interleavings at park-point granularity. SRP leading-zero padding ambiguity not judged.",
})

CODEC_REAL = ["hc crypto.secureSession (Encrypt/Decrypt), crypto/packet.go, crypto/chacha20poly1305, crypto/hkdf built from /repo's working tree"]
CODEC_STUB = ["the io.Reader handed to Encrypt/Decrypt (simulated source deciding the size of every read and when EOF is signalled)",
              "peer: reference framing written from the HAP specification (verif/sim/ref: HKDF labels, nonce layout, AAD, frame size typed in independently)"]

PROPS["C06"] = {
    "test": "TestC06", "level": "exploration",
    "budget": {"quick": 15, "thorough": 300},
    "rule": "fixed sweep: every payload length 0..4097 x 5 source chunking modes (whole, one byte per read, halves, seeded sizes, data together with io.EOF) x both directions, each followed by a second message (counter continuity); plus rapid-generated sessions of 1..6 messages with lengths up to 40000; non-trivial = every message compared byte-for-byte with the reference framing or decrypted from reference frames; distinct = distinct (length, source modes, direction) sequences",
    "real": CODEC_REAL, "stub": CODEC_STUB,
    "assumptions": ["x/crypto chacha20poly1305 and hkdf are trusted and shared by both sides",
                    "an empty payload may produce no frame at all or one empty frame"],
    "level_text": "Seeded exploration plus an exhaustive sweep of lengths 0..4097 per source mode: hc's Encrypt output is compared byte-for-byte with an independent framing (2-byte LE length as AAD, 64-bit LE counter nonce from 0, 1024-byte frames, Control-Salt keys) and hc's Decrypt is fed reference frames through a simulated reader that decides how each Read is cut. The only nondeterminism in this property is the behaviour of the source reader; that is the simulated seam.",
    "level_note": "Trusted: x/crypto primitives. No goroutines, clock or network are involved in this property; the simulated component is the io.Reader.",
    "technique": "deterministic simulation of the source reader (seeded chunking, short reads, EOF-with-data) with an independent reference framing as oracle; exhaustive length sweep + seeded search with shrinking",
}
PROPS["C05"] = {
    "test": "TestC05", "level": "exploration",
    "budget": {"quick": 15, "thorough": 300},
    "rule": "codec layer: reference-framed stream of 1..4 messages (0..2600 bytes) with 0..3 seeded alterations from {bit flip anywhere / in a length / in a tag, truncation, frame drop, duplicate, swap, replay, reflection of the accessory's own frames, frame from another session, header/body splice, junk insertion}, fed to hc Decrypt through a simulated chunking reader; exhaustive single-bit-flip sub-space for streams of one or two frames of <=64 bytes and one 1029-byte message. system layer (C05 part ii) is exercised by the on-path adversary of the C01/C08 worlds. non-trivial = the stream was actually altered; distinct = distinct (lengths, alterations, chunk mode, intact prefix)",
    "real": CODEC_REAL, "stub": CODEC_STUB,
    "assumptions": ["x/crypto chacha20poly1305 is trusted", "after the first reported error the session is considered dead (hap.Connection closes the socket); plaintext released by further Decrypt calls on the same session is not judged at codec level"],
    "level_text": "Seeded fault injection on the ciphertext stream between an independent sender and hc's Decrypt: whatever is released must be a whole-frame prefix of what was sent, ending no later than the first altered frame, and the call consuming the first altered frame must return an error. The single-bit-flip space is enumerated completely for small streams; everything else is sampled.",
    "level_note": "Trusted: x/crypto primitives. Sampling outside the enumerated bit-flip sub-space.",
    "technique": "deterministic simulation with fault injection on the byte stream (on-path adversary model), reference sender as oracle, seeded search with shrinking + exhaustive bit-flip sub-space",
}

PROPS["C07"] = {
    "test": "TestC07", "level": "exploration",
    "budget": {"quick": 20, "thorough": 400},
    "rule": "one real hap.Connection with an installed session over a simulated TCP connection; a peer goroutine sends 1..5 reference-framed messages (lengths around 1, 16, 1023..1025, k*1024, up to 5000); the scheduler decides the interleaving of peer writes, caller reads and segment deliveries (split at any offset incl. inside the length field and the tag, several frames per segment), the caller cycles through 1..4 buffer sizes (1..6000), and up to 3 read deadlines trip at scheduler-chosen points; non-trivial = at least one segment split or more than one message; distinct = distinct (lengths, buffer sizes, trips, event-log hash)",
    "real": ["hc hap.Connection, hap.Context, hap.Session, crypto.secureSession built from /repo's working tree with -tags verif"],
    "stub": ["TCP connection (simulated, scheduler-owned delivery and deadlines)", "peer: reference framing (verif/sim/ref)", "clock (testing/synctest)"],
    "assumptions": ["the caller clears an expired read deadline before reading again, as net/http does", "a deadline error is allowed and must lose nothing"],
    "level_text": "Seeded exploration of segmentations, buffer sizes, read/write interleavings and deadline trips against a reference sender; oracles: returned bytes are always a prefix of what was sent and complete at the end, no EOF/error while the peer is connected, and promptness (the connection may not wait for the network while a completely arrived frame has unreturned plaintext), evaluated at every quiescent point.",
    "level_note": "Trusted: x/crypto primitives. One reader goroutine (as net/http uses the connection). Sampling, not proof.",
}

PROPS["C18"] = {
    "test": "TestC18", "level": "exploration",
    "budget": {"quick": 15, "thorough": 300},
    "rule": "rapid-generated histories of 1..14 operations from {Set, Get, Delete, KeysWithSuffix, reopen, SaveEntity, EntityWithName, DeleteEntity, Entities} over 1..4 storage keys and 1..3 entity names (arbitrary bytes up to 100, incl. invalid UTF-8 and the empty name), values of 0..4096 seeded bytes, compared operation by operation with an in-memory map; 'reopen' drops every object and opens a new store on the same directory; non-trivial = the history overwrote a key, restarted, or stored an entity; distinct = distinct operation-kind sequences with overwrite counts",
    "real": ["hc util.fileStorage and db.database built from /repo's working tree, on real files in a private temporary directory"],
    "stub": ["process restart modelled as dropping every in-memory object and reopening the directory"],
    "assumptions": ["raw storage keys are drawn from [abAB09._-xy] (the store strips ':' from file names, so keys differing only by ':' collide by design)",
                    "restart = process restart; power loss (lost un-synced writes) is not modelled"],
    "level_text": "Seeded exploration of storage/database histories with restarts against an in-memory reference map, operation by operation (values, not-found, listings, entity names and keys).",
    "level_note": "Single caller (the store is not specified for concurrent use). Sampling, not proof.",
    "technique": "deterministic simulation of histories with restart injection against a reference model; seeded search with shrinking and replay",
}
PROPS["C19"] = {
    "engine": "crash", "engine_name": "crash", "level": "fault_enumeration",
    "budget": {"quick": 0, "thorough": 0},
    "rule": "15 scenarios (Set with old value absent / 10 / 37 / 9000 bytes x new value 1 / 37 / 5000 bytes; SaveEntity overwrite and create; the configuration rewrite of a second NewIPTransport start that bumps the version from 9 to 10); for each, a ptrace tracer records the N file-system syscalls the operation issues under the storage directory and then kills the child before the k-th, for every k = 1..N (plus the complete run); after each kill a fresh store must return the old or the new value in full for every key the operation rewrites, every other key untouched, and the pairing database must load; distinct = distinct (scenario, crash point)",
    "real": ["hc util.fileStorage, db.database, hc.NewIPTransport + Config.save built from /repo's working tree, running as a real child process on a real directory", "the Linux kernel's file system"],
    "stub": ["process crash = SIGKILL delivered by a ptrace tracer at the entry of the k-th file-system syscall under the directory"],
    "assumptions": ["crash model: process kill. Completed syscalls survive (page cache), the interrupted one did not happen; power loss (lost un-synced writes) is not what C19 states and is not modelled",
                    "a leftover temporary file of an interrupted write is not a stored key"],
    "level_text": "Fault enumeration: every crash point between the file-system syscalls of each write scenario is tried (exhaustive over crash points of the listed scenarios), observed at the syscall boundary so that any implementation of Set is covered, including ones that hide the window inside one library call.",
    "level_note": "Exhaustive over crash points of 15 scenarios; the scenarios themselves are a chosen sample of old/new value pairs.",
    "technique": "deterministic crash injection at every file-system syscall boundary (ptrace), old-or-new oracle through a fresh store",
    "design_ref": "DESIGN.md sections 3.7 and 7 (C19)",
}
