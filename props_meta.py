"""Per-property metadata used by ./check (test name, budgets, evidence wording)."""

REAL_SYSTEM = ["hc (ipTransport, hap, hap/http, hap/endpoint, hap/pair, crypto/*, characteristic, service, accessory, db, util, event) built from /repo's working tree with -tags verif",
               "Go 1.26.8 net/http server, encoding/json, golang.org/x/crypto, tadglines/srp, xiam/to",
               "real files in a private temporary directory"]
STUB_SYSTEM = ["TCP (in-memory listener and connections owned by the scheduler)", "mDNS responder (records TXT)",
               "clock (testing/synctest)", "entropy (testing/cryptotest seeded ChaCha8)",
               "peer: reference controller / adversary written from the HAP specification (verif/sim/ref)"]

PROPS = {
    "C04": {
        "test": "TestC04", "level": "exploration",
        "budget": {"quick": 25, "thorough": 600},
        "rule": "rapid-generated scenarios (setup code, controller id, key pairs via seed, accessory count, pre-seeded or on-the-wire pairing, other stored controllers, request list with sizes from one to several frames, schedule vector deciding goroutine release order and TCP segmentation); non-trivial = the reference controller completed the whole flow; distinct = distinct (scenario shape, event-log hash)",
        "real": REAL_SYSTEM, "stub": STUB_SYSTEM,
        "assumptions": ["x/crypto, std crypto, math/big, encoding/json and net/http are trusted and shared by both sides",
                        "SRP integers inside M1 and K use the minimal big-endian encoding (libsrp convention); the padding ambiguity for values with a leading zero byte is not judged",
                        "interleavings are explored at park-point granularity (connection operations, SetCryptographer, lock probe), not inside straight-line code"],
    },
}

HOOK_COMMITS = ["c5f0c72"]

PURE = "pure function of its input: no schedule, clock, fault, I/O or interleaving for a simulator to own (DESIGN.md section 8); no other technique is substituted"
NOT_APPLICABLE = [
    {"property_id": "C14", "reason": "ids are a " + PURE},
    {"property_id": "C15", "reason": "static comparison of constructors with gen/metadata.json; a " + PURE},
    {"property_id": "C16", "reason": "TLV8 container codec over byte strings; a " + PURE},
    {"property_id": "C17", "reason": "struct TLV8 codec over values and byte strings; a " + PURE},
]
_PENDING = ["C01", "C02", "C03", "C05", "C06", "C07", "C08", "C09", "C10", "C11", "C12", "C13", "C18", "C19", "C20"]
for _p in _PENDING:
    if _p not in PROPS:
        NOT_APPLICABLE.append({"property_id": _p, "reason": "applicable, but its check is not built yet in this revision (planned in DESIGN.md section 7); not claimed until it exists"})

PROPS["C04"].update({
    "level_text": "Seeded exploration: an independent reference controller (own TLV8, SRP-6a, HKDF, ChaCha20-Poly1305, Ed25519/X25519 glue, own framing and HTTP reader) pairs, verifies and exchanges encrypted requests with the real transport over the simulated network, for generated codes, identities, storage contents, request sizes, TCP segmentations and goroutine schedules (incl. the cryptographer hand-over); every proof, signature and frame is checked by the reference. Sampling, not proof.",
    "level_note": "Trusted: x/crypto and std crypto primitives, math/big, encoding/json, net/http (Go 1.26.8). Interleavings at park-point granularity. SRP leading-zero padding ambiguity not judged.",
})
