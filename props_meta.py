"""Per-property metadata used by ./check (test name, budgets, evidence wording)."""

REAL_SYSTEM = ["hc (ipTransport, hap, hap/http, hap/endpoint, hap/pair, crypto/*, characteristic, service, accessory, db, util, event) built from /repo's working tree with -tags verif",
               "Go 1.26.8 net/http server, encoding/json, golang.org/x/crypto, tadglines/srp, xiam/to",
               "real files in a private temporary directory"]
STUB_SYSTEM = ["TCP (in-memory listener and connections owned by the scheduler)", "mDNS responder (records TXT)",
               "clock (testing/synctest)", "entropy (testing/cryptotest seeded ChaCha8)",
               "peer: reference controller / adversary written from the HAP specification (verif/sim/ref)"]

PROPS = {
    "C04": {
        "test": "TestC04", "level": "exploration",
        "budget": {"quick": 25, "thorough": 600},
        "rule": "rapid-generated scenarios (setup code, controller id, key pairs via seed, accessory count, pre-seeded or on-the-wire pairing, other stored controllers, request list with sizes from one to several frames, schedule vector deciding goroutine release order and TCP segmentation); non-trivial = the reference controller completed the whole flow; distinct = distinct (scenario shape, event-log hash); in a quarter of the scenarios that pair on the wire the store already holds the controller's identifier with another long-term key (the controller pairs again after its own reset): the new key must be the stored one and pair-verify with it must succeed",
        "real": REAL_SYSTEM, "stub": STUB_SYSTEM,
        "assumptions": ["x/crypto, std crypto, math/big, encoding/json and net/http are trusted and shared by both sides",
                        "SRP integers inside M1 and K use the minimal big-endian encoding (libsrp convention); the padding ambiguity for values with a leading zero byte is not judged",
                        "interleavings are explored at park-point granularity (connection operations, SetCryptographer, lock probe), not inside straight-line code"],
    },
}

HOOK_COMMITS = ["c5f0c72", "e06bdd6", "383c941", "2e35028"]

PURE = "pure function of its input: no schedule, clock, fault, I/O or interleaving for a simulator to own (DESIGN.md section 8); no other technique is substituted"
NOT_APPLICABLE = [
    {"property_id": "C14", "reason": "ids are a " + PURE},
    {"property_id": "C15", "reason": "static comparison of constructors with gen/metadata.json; a " + PURE},
    {"property_id": "C16", "reason": "TLV8 container codec over byte strings; a " + PURE},
    {"property_id": "C17", "reason": "struct TLV8 codec over values and byte strings; a " + PURE},
]
_ALL = ["C%02d" % i for i in range(1, 21)]


def not_applicable():
    out = list(NOT_APPLICABLE)
    done = {e["property_id"] for e in out}
    for p in _ALL:
        if p not in PROPS and p not in done:
            out.append({"property_id": p, "reason": "applicable, but its check is not built yet in this revision (planned in DESIGN.md section 7); not claimed until it exists"})
    return out

PROPS["C04"].update({
    "level_text": "Seeded exploration: an independent reference controller (own TLV8, SRP-6a, HKDF, ChaCha20-Poly1305, Ed25519/X25519 glue, own framing and HTTP reader) pairs, verifies and exchanges encrypted requests with the real transport over the simulated network, for generated codes, identities, storage contents, request sizes, TCP segmentations and goroutine schedules (incl. the cryptographer hand-over); every proof, signature and frame is checked by the reference. Sampling, not proof.",
    "level_note": "Trusted: x/crypto and std crypto primitives, math/big, encoding/json, net/http (Go 1.26.8). Interleavings at park-point granularity. SRP leading-zero padding ambiguity not judged.",
})

CODEC_REAL = ["hc crypto.secureSession (Encrypt/Decrypt), crypto/packet.go, crypto/chacha20poly1305, crypto/hkdf built from /repo's working tree"]
CODEC_STUB = ["the io.Reader handed to Encrypt/Decrypt (simulated source deciding the size of every read and when EOF is signalled)",
              "peer: reference framing written from the HAP specification (verif/sim/ref: HKDF labels, nonce layout, AAD, frame size typed in independently)"]

PROPS["C06"] = {
    "test": "TestC06", "level": "exploration",
    "budget": {"quick": 15, "thorough": 300},
    "rule": "fixed sweep: every payload length 0..4097 x 5 source chunking modes (whole, one byte per read, halves, seeded sizes, data together with io.EOF) x both directions, each followed by a second message (counter continuity); plus rapid-generated sessions of 1..6 messages with lengths up to 40000; non-trivial = every message compared byte-for-byte with the reference framing or decrypted from reference frames; distinct = distinct (length, source modes, direction) sequences",
    "real": CODEC_REAL, "stub": CODEC_STUB,
    "assumptions": ["x/crypto chacha20poly1305 and hkdf are trusted and shared by both sides",
                    "an empty payload may produce no frame at all or one empty frame"],
    "level_text": "Seeded exploration plus an exhaustive sweep of lengths 0..4097 per source mode: hc's Encrypt output is compared byte-for-byte with an independent framing (2-byte LE length as AAD, 64-bit LE counter nonce from 0, 1024-byte frames, Control-Salt keys) and hc's Decrypt is fed reference frames through a simulated reader that decides how each Read is cut. The only nondeterminism in this property is the behaviour of the source reader; that is the simulated seam.",
    "level_note": "Trusted: x/crypto primitives. No goroutines, clock or network are involved in this property; the simulated component is the io.Reader.",
    "technique": "deterministic simulation of the source reader (seeded chunking, short reads, EOF-with-data) with an independent reference framing as oracle; exhaustive length sweep + seeded search with shrinking",
}
PROPS["C05"] = {
    "test": "TestC05", "level": "exploration",
    "budget": {"quick": 15, "thorough": 300},
    "rule": "codec layer: reference-framed stream of 1..4 messages (0..2600 bytes) with 0..3 seeded alterations from {bit flip anywhere / in a length / in a tag, truncation, frame drop, duplicate, swap, replay, reflection of the accessory's own frames, frame from another session, header/body splice, junk insertion}, fed to hc Decrypt through a simulated chunking reader; exhaustive single-bit-flip sub-space for streams of one or two frames of <=64 bytes and one 1029-byte message. system layer (a quarter of the scenarios): the real transport with a verified controller sending 1..5 PUT requests of 1..3 frames that write brightness 1,2,3,...; while one request is in flight on the simulated network an on-path adversary alters it (bit flip anywhere / in a length / in a tag, truncation, frame drop, duplicate, swap, replay of the first request, reflection of the accessory's own bytes, junk frame); oracle: the remote-update callbacks are 1..j with j no larger than the number of requests that arrived unaltered, and the accessory closes the connection. non-trivial = the stream was actually altered; distinct = distinct (lengths, alterations, chunk mode, intact prefix)",
    "real": CODEC_REAL + REAL_SYSTEM, "stub": CODEC_STUB + STUB_SYSTEM,
    "assumptions": ["x/crypto chacha20poly1305 is trusted", "after the first reported error the session is considered dead (hap.Connection closes the socket); plaintext released by further Decrypt calls on the same session is not judged at codec level"],
    "level_text": "Seeded fault injection on the ciphertext stream between an independent sender and hc's Decrypt: whatever is released must be a whole-frame prefix of what was sent, ending no later than the first altered frame, and the call consuming the first altered frame must return an error. The single-bit-flip space is enumerated completely for small streams; everything else is sampled.",
    "level_note": "Trusted: x/crypto primitives. Sampling outside the enumerated bit-flip sub-space.",
    "technique": "deterministic simulation with fault injection on the byte stream (on-path adversary model), reference sender as oracle, seeded search with shrinking + exhaustive bit-flip sub-space",
}

PROPS["C07"] = {
    "test": "TestC07", "level": "exploration",
    "budget": {"quick": 20, "thorough": 400},
    "rule": "one real hap.Connection with an installed session over a simulated TCP connection; a peer goroutine sends 1..5 reference-framed messages (lengths around 1, 16, 1023..1025, k*1024, up to 5000); the scheduler decides the interleaving of peer writes, caller reads and segment deliveries (split at any offset incl. inside the length field and the tag, several frames per segment), the caller cycles through 1..4 buffer sizes (1..6000), and up to 3 read deadlines trip at scheduler-chosen points; non-trivial = at least one segment split or more than one message; distinct = distinct (lengths, buffer sizes, trips, event-log hash)",
    "real": ["hc hap.Connection, hap.Context, hap.Session, crypto.secureSession built from /repo's working tree with -tags verif"],
    "stub": ["TCP connection (simulated, scheduler-owned delivery and deadlines)", "peer: reference framing (verif/sim/ref)", "clock (testing/synctest)"],
    "assumptions": ["the caller clears an expired read deadline before reading again, as net/http does", "a deadline error is allowed and must lose nothing"],
    "level_text": "Seeded exploration of segmentations, buffer sizes, read/write interleavings and deadline trips against a reference sender; oracles: returned bytes are always a prefix of what was sent and complete at the end, no EOF/error while the peer is connected, and promptness (the connection may not wait for the network while a completely arrived frame has unreturned plaintext), evaluated at every quiescent point.",
    "level_note": "Trusted: x/crypto primitives. One reader goroutine (as net/http uses the connection). Sampling, not proof.",
}

PROPS["C18"] = {
    "test": "TestC18", "level": "exploration",
    "budget": {"quick": 15, "thorough": 300},
    "rule": "rapid-generated histories of 1..14 operations from {Set, Get, Delete, KeysWithSuffix, reopen, SaveEntity, EntityWithName, DeleteEntity, Entities} over 1..4 storage keys and 1..3 entity names (arbitrary bytes up to 100, incl. invalid UTF-8 and the empty name), values of 0..4096 seeded bytes, compared operation by operation with an in-memory map; 'reopen' drops every object and opens a new store on the same directory; non-trivial = the history overwrote a key, restarted, or stored an entity; distinct = distinct operation-kind sequences with overwrite counts",
    "real": ["hc util.fileStorage and db.database built from /repo's working tree, on real files in a private temporary directory"],
    "stub": ["process restart modelled as dropping every in-memory object and reopening the directory"],
    "assumptions": ["raw storage keys are drawn from [abAB09._-xy] (the store strips ':' from file names, so keys differing only by ':' collide by design)",
                    "restart = process restart; power loss (lost un-synced writes) is not modelled"],
    "level_text": "Seeded exploration of storage/database histories with restarts against an in-memory reference map, operation by operation (values, not-found, listings, entity names and keys).",
    "level_note": "Single caller (the store is not specified for concurrent use). Sampling, not proof.",
    "technique": "deterministic simulation of histories with restart injection against a reference model; seeded search with shrinking and replay",
}
PROPS["C19"] = {
    "engine": "crash", "engine_name": "crash", "level": "fault_enumeration",
    "budget": {"quick": 0, "thorough": 0},
    "rule": "quick: 15 scenarios, thorough: 83 scenarios (Set with old value absent / 10 / 37 / 9000 bytes x new value 1 / 37 / 5000 bytes, in thorough old in {absent,0,1,10,37,4095,4096,4097,9000,70000} x new in {0,1,37,4095,4096,4097,5000,70000}; SaveEntity overwrite and create; the configuration rewrite of a second NewIPTransport start that bumps the version from 9 to 10); for each, a ptrace tracer records the N file-system syscalls the operation issues under the storage directory and then kills the child before the k-th, for every k = 1..N (plus the complete run); after each kill a fresh store must return the old or the new value in full for every key the operation rewrites, every other key untouched, the pairing database must load, and completed follow-up writes (3 bytes, 6000 bytes, empty; a new entity) through the fresh store must read back exactly; distinct = distinct (scenario, crash point)",
    "real": ["hc util.fileStorage, db.database, hc.NewIPTransport + Config.save built from /repo's working tree, running as a real child process on a real directory", "the Linux kernel's file system"],
    "stub": ["process crash = SIGKILL delivered by a ptrace tracer at the entry of the k-th file-system syscall under the directory"],
    "assumptions": ["crash model: process kill. Completed syscalls survive (page cache), the interrupted one did not happen; power loss (lost un-synced writes) is not what C19 states and is not modelled",
                    "a leftover temporary file of an interrupted write is not a stored key"],
    "level_text": "Fault enumeration: every crash point between the file-system syscalls of each write scenario is tried (exhaustive over crash points of the listed scenarios), observed at the syscall boundary so that any implementation of Set is covered, including ones that hide the window inside one library call.",
    "level_note": "Exhaustive over crash points of 15 scenarios; the scenarios themselves are a chosen sample of old/new value pairs.",
    "technique": "deterministic crash injection at every file-system syscall boundary (ptrace), old-or-new oracle through a fresh store",
    "design_ref": "DESIGN.md sections 3.7 and 7 (C19)",
}

ADV_ASSUME = ["x/crypto, std crypto, math/big, encoding/json and net/http are trusted and shared by both sides",
              "the peer's message alphabet is the one listed in the rule; messages outside it are not explored",
              "interleavings are explored at park-point granularity (connection operations, SetCryptographer, lock probe)"]

PROPS["C01"] = {
    "test": "TestC01", "level": "exploration", "budget": {"quick": 30, "thorough": 600},
    "rule": "the real transport with 1..3 accessories carrying planted canaries, a legitimate controller L (paired on the wire or pre-seeded) that verifies, writes with ev:true, reads and lists on its own connection, an application goroutine setting values, and 1..3 peer connections (peer has neither setup code nor paired key) running 1..10 messages from: plaintext GET/PUT/POST to /accessories, /characteristics (read, write, ev), /pairings (add, remove, list), /resource, /identify, a quarter of them with another legal spelling of the request target (absolute-form, percent-encoded unreserved characters); pair-setup start / verify with wrong proof, A=0 / key exchange sealed under the zero key, HKDF(nil), a random key, shorter than a tag; pair-verify start (valid, wrong length) and finish (wrong key, unknown name, the accessory's own name, stale material, L's captured finish replayed, wrong seal, short, bad TLV); ciphertext GET under keys the peer derives itself (own ECDH secret, zero, random) and L's captured frames replayed; a plaintext request afterwards; the scheduler interleaves all connections and decides segmentation. Oracles: no protected request is served (in plaintext or under a peer-derivable key), no canary / attribute-database key / EVENT reaches a peer connection, no callback or snapshot or subscription or stored pairing is caused by a peer, a cryptographer exists only on L's connection (invariant at every quiescent point), and L keeps working. non-trivial = at least one peer message was answered; distinct = distinct (peer knowledge, per-message kind and status) sequences",
    "real": REAL_SYSTEM, "stub": STUB_SYSTEM, "assumptions": ADV_ASSUME,
    "level_text": "Seeded exploration of request histories of an unprivileged peer interleaved with a legitimate controller, with black-box oracles on every byte the peer receives and white-box invariants (session map, pairing store, subscriptions, callbacks) at every quiescent point.",
    "level_note": "Sampling over a fixed message alphabet; primitives trusted.",
}
PROPS["C02"] = {
    "test": "TestC02", "level": "exploration", "budget": {"quick": 30, "thorough": 600},
    "rule": "1..2 peer connections (peer knows the setup code in 2/3 of the scenarios) run 1..10 pair-setup messages from {start; verify with right proof / wrong proof / A=0 / A=N / A missing; key exchange genuine / tampered / shorter than a tag / sealed under the all-zero key with HKDF(nil) signature material / under HKDF(nil) / under a random key / signed by another key / signed over another name / replayed from the legitimate controller's exchange; unknown state; unknown method}, optionally while a legitimate controller pairs on a third connection (source of replay material); model: a (name, key) may be stored only once a key-exchange message was sent that the reference built from the session key of a right-proof verify request acknowledged on that connection with no start/verify since, and must be stored once its M6 arrived; invariant required <= stored <= initial + allowed with equal keys at every quiescent point; non-genuine messages must not be answered with a proof or the accessory's encrypted key exchange",
    "real": REAL_SYSTEM, "stub": STUB_SYSTEM, "assumptions": ADV_ASSUME,
    "level_text": "Seeded exploration of pair-setup message sequences (orders and contents) on interleaved connections against a reference that decides which key-exchange messages are genuine; the pairing store is compared with the model at every quiescent point.",
    "level_note": "Sampling over a fixed message alphabet; 10-25 ms per run (SRP).",
}
PROPS["C03"] = {
    "test": "TestC03", "level": "exploration", "budget": {"quick": 30, "thorough": 600},
    "rule": "pairing sets of 1..3 stored controllers plus the accessory's own entity; 1..2 peer connections (peer holds a stored controller's long-term key in 2/3 of the scenarios) run 1..10 messages from {start with valid / wrong-length key; finish genuine / signed by a wrong key / unknown name / the accessory's own name / over the previous exchange's material / over reordered material / replayed from the legitimate controller / sealed under a wrong key / shorter than a tag / with a broken sub-TLV; unknown state; ciphertext GET under the peer's own ECDH key; plaintext GET afterwards}; oracles: invariant 'cryptographer present => a genuine finish was sent on this connection' at every quiescent point, a non-genuine finish is never answered with state 4 without error, no answer decrypts under a key the peer derived on a model-unverified connection",
    "real": REAL_SYSTEM, "stub": STUB_SYSTEM, "assumptions": ADV_ASSUME,
    "level_text": "Seeded exploration of pair-verify message sequences for several pairing sets; the model verifies a connection only on a finish message the reference built with a stored controller's secret key for the keys of the exchange in progress; checked as a state invariant and black-box (what the peer can decrypt).",
    "level_note": "Sampling over a fixed message alphabet.",
}
PROPS["C13"] = {
    "test": "TestC13", "level": "exploration", "budget": {"quick": 30, "thorough": 600},
    "rule": "1..2 peer connections, half of the scenarios starting each connection with an honest pair-verify (hostile input after verification), run 1..10 messages from: arbitrary bodies (random bytes, truncated / over-long / duplicated TLV items, encrypted data shorter than a tag, arbitrary JSON incl. wrong types, huge numbers, deep nesting, repeated composite values, odd pairing methods) to /pair-setup, /pair-verify, /pairings, /characteristics (PUT and GET ids), /resource, /accessories, /identify, and protocol messages at every step of pair-setup and pair-verify (wrong proof, A=0, A missing, short / tampered / random key exchange, a correctly sealed and signed key exchange with an identifier of 100..255 bytes, unknown state / method, short / wrong-seal / bad-TLV / unknown-name finish); oracles: every complete request is answered with a well-formed HTTP response, nothing like 'http: panic serving' appears on the captured server log, and afterwards an honest pair-verify succeeds on the same connection after at most one rejected start and an honest pair-setup + pair-verify + GET succeeds on a new connection (bounded liveness: the run must reach quiescence with every peer finished)",
    "real": REAL_SYSTEM, "stub": STUB_SYSTEM, "assumptions": ADV_ASSUME,
    "level_text": "Seeded exploration of hostile inputs at every reachable protocol state with a liveness epilogue; panics are observed on the captured net/http error log, wedges as a peer that never gets its answer.",
    "level_note": "Sampling; the body generator is a fixed family of malformed shapes plus random bytes.",
}

PROPS["C08"] = {
    "test": "TestC08", "level": "exploration", "budget": {"quick": 30, "thorough": 600},
    "rule": "the real transport with one accessory (bool, int, float and string characteristics, all with events); controller X verifies and subscribes to all of them, then 1..4 application goroutines set 1..4 unique values each (string values optionally of several frames), a second verified controller Y writes by PUT, X's own GET requests are answered, and hap.KeepAlive (started by the harness as a user would) fires when the scheduler advances the simulated clock by 10 minutes; every hap.Connection.Write entry, every write-mutex acquisition and every socket write entry is a park, so the scheduler decides in which order sealed frames reach the socket. Oracle: everything the accessory put on X's socket, in socket order, authenticates frame by frame with counters 0,1,2,... under the reference framing, and the decrypted stream is a concatenation of the payloads recorded at Connection.Write (each intact and contiguous). connection level (a quarter of the scenarios): one real hap.Connection with an installed session over a simulated socket and 2..4 writer goroutines calling its Write / WriteEvent concurrently with payloads of 1 to 3 frames, same oracle on the socket stream. non-trivial = at least two writers were parked on X's connection (at the socket or at the write mutex) at the same quiescent point; distinct = distinct (scenario shape, event-log hash)",
    "real": REAL_SYSTEM + ["hap.KeepAlive (real), driven by the fake clock"], "stub": STUB_SYSTEM,
    "assumptions": ["token passing orders all goroutines, so unsynchronised memory access inside Encrypt is not visible to this check (no park inside Encrypt)",
                    "interleavings at park-point granularity"],
    "level_text": "Seeded exploration of writer interleavings on one encrypted connection: the scheduler owns the order of frame sealing and socket writes. A reach probe counts runs with two writers parked on the same connection.",
    "level_note": "Sampling of schedules; the race detector is blind under the token scheduler and is not used to decide the property.",
}

VAL_ASSUME = ["x/crypto, std crypto, encoding/json and net/http are trusted and shared by both sides",
              "the constructor table is regenerated from /repo/characteristic at build time (go/ast scan for zero-argument New* functions)",
              "interleavings at park-point granularity"]

PROPS["C09"] = {
    "test": "TestC09", "level": "exploration", "budget": {"quick": 30, "thorough": 600},
    "rule": "a bridge built from 3..12, 20..60 or all ~167 zero-argument characteristic constructors found in /repo (1..8 per accessory, so 1 to ~170 accessories), 1..3 verified controllers and 1..2 application goroutines run 1..14 operations over a working set of 1..4 characteristics: application set / get, controller GET /characteristics with 1..5 ids (existing, foreign, missing), GET /accessories, PUT of in-range values per format (booleans, integers within min/max, floats in 0.1 steps, UTF-8 strings with quotes / escapes / HTML characters / non-BMP runes up to 3000 runes, base64 payloads up to 2500 bytes); the scheduler interleaves actors and segments TCP. Oracles: per-characteristic register linearizability of all sets, PUTs and reads (porcupine, operations stamped with scheduler sequence numbers), 200 vs 207, one entry per requested id in order, a status on every entry of a 207 answer, an error status for missing ids, PUT answered 204, remote-update callbacks carry exactly the uniquely written values, exactly once. non-trivial = more than one operation; distinct = distinct (selection size, operation kinds per actor, event-log hash)",
    "real": REAL_SYSTEM, "stub": STUB_SYSTEM, "assumptions": VAL_ASSUME + ["a reading without a value key is taken as the zero value of the format (omitempty drops \"\", 0 and false)", "porcupine Unknown (timeout) is counted as inconclusive, never as a violation; histories are capped at 40 operations per characteristic"],
    "level_text": "Seeded exploration over constructors x values x id lists x bridge sizes with concurrent actors; value fidelity is decided by a linearizability check of each characteristic's history against a register model, the response shape by direct comparison.",
    "level_note": "Sampling; the whole catalog is used in one of eight scenarios.",
    "technique": "deterministic simulation: seeded schedules and segmentation, recorded invoke/return history checked for linearizability (porcupine) against a register model, shrinking and replay",
}
PROPS["C10"] = {
    "test": "TestC10", "level": "exploration", "budget": {"quick": 30, "thorough": 600},
    "rule": "same bridge; 1..3 verified controllers and 1..2 application goroutines run 1..14 operations from {application set, controller PUT (unique values, or deliberately the current value), subscribe, unsubscribe, close + reconnect + verify, GET}; the order in which connections are notified is a scheduler choice (connection-order hook); every controller ends with a drain round trip once all operations are done. Interval oracle per (change, connection): exactly one EVENT if the connection's last subscription-affecting operation that returned before the change began is an accepted subscribe, nothing of that connection overlaps the change, it is open and not the originator and no other write to that characteristic overlaps; none if it is the originator, closed before, never subscribed before the change ended, last unsubscribed, the value did not change or the characteristic has no ev permission; either otherwise; never two; never an event nobody wrote. non-trivial = more than one operation",
    "real": REAL_SYSTEM, "stub": STUB_SYSTEM, "assumptions": VAL_ASSUME + ["boolean characteristics are excluded from exactly-once counting (values are not unique)", "ProgrammableSwitchEvent style 'notify on same value' is not modelled: 'same' writes on it are judged 'either' only when overlapping"],
    "level_text": "Seeded exploration of subscribe / change / close histories over several connections with a purpose-built interval checker over the recorded history (scheduler sequence numbers).",
    "level_note": "Sampling.",
}
PROPS["C11"] = {
    "test": "TestC11", "level": "exploration", "budget": {"quick": 30, "thorough": 600},
    "rule": "same bridge with generated permission sets overriding a third of the characteristics (any subset of pr/pw/ev); operations: application set, in-process UpdateValueFromConnection, controller PUT of values, ev:true / ev:false, GET /characteristics, GET /accessories. Oracles: a remote write (HTTP or in-process) to a characteristic without pw leaves the value unchanged and runs no callback; a characteristic without pr has a nil stored value at every quiescent point and no value key in any answer; ev on a characteristic without ev is answered with a status entry and no EVENT for it is ever delivered",
    "real": REAL_SYSTEM, "stub": STUB_SYSTEM, "assumptions": VAL_ASSUME + ["the weight of this check is carried by enumerating constructors x permission sets x values; the simulator contributes the delivery path and the 'no event later' history"],
    "level_text": "Seeded exploration over constructors, permission sets and values on both the in-process and the HTTP path, as invariants at quiescent points and over the recorded history.",
    "level_note": "Sampling.",
}
PROPS["C12"] = {
    "test": "TestC12", "level": "exploration", "budget": {"quick": 30, "thorough": 600},
    "rule": "same bridge; application set, in-process UpdateValueFromConnection and controller PUT with arbitrary finite JSON values (numbers of any magnitude and sign, numeric and non-numeric strings incl. \"NaN\" and \"1e400\", booleans, null, arrays, objects, and the previous value repeated); invariant at every quiescent point for every readable characteristic: the dynamic type of the stored value is the one the typed getter asserts for the format, it lies within the declared minimum and maximum, floats are finite; at the end every accessory encodes as JSON; no handler or application goroutine panicked",
    "real": REAL_SYSTEM, "stub": STUB_SYSTEM, "assumptions": VAL_ASSUME + ["'type its format declares' is read as the Go type the typed getter asserts (int, float64, bool, string); integer formats are only held to their declared min/max, not to the width of the format"],
    "level_text": "Seeded exploration over constructors x arbitrary JSON values x update sequences, checked as a state invariant at every quiescent point.",
    "level_note": "Sampling.",
}

PROPS["C20"] = {
    "test": "TestC20", "level": "exploration", "budget": {"quick": 25, "thorough": 600},
    "env": {"thorough": {"VERIF_C20_ALL_CODES": "1"}},
    "rule": "histories of 1..9 operations on one storage directory from {restart with the same structure and other values, restart with a structurally different accessory set (6 variants: single switch, bridge, extra characteristic, other permission list and extra service), pair-setup on the wire, a pair-setup by somebody who knows the setup code whose key-exchange message is damaged (flipped bit in the sealed data, or signed with another key: must be refused, nothing stored, sf unchanged), add pairing and remove pairing through /pairings by a verified controller, value changes through the application API, probe by a paired controller}; after every start and after every pair / unpair event: the id TXT record and the long-term public key equal the first run's, every model pairing is stored and nothing else, c# equals the previous c# plus one exactly when an independent value-stripping canonicaliser of the encoded attribute database gives another hash than for the previous run, sf in the stub responder's latest TXT record is 1 exactly when the model holds no controller pairing, and the setup URI decodes back to code, category, IP flag and setup id. Pure sub-claims by plain enumeration in the same command (not simulation): ValidatePin over a stride sample of the code space in quick and all 10^8 codes in thorough plus 15 malformed strings; XHMURI decode over 256 categories x 16 flag sets x 7 codes. non-trivial = at least one restart or stored pairing",
    "real": REAL_SYSTEM, "stub": STUB_SYSTEM + ["restart = close every connection, stop the transport, drop every object, build a new transport on the same directory"],
    "assumptions": ["the structure is compared on hc's own JSON encoding of the container (an independent canonicaliser strips values and compares)", "restart is a clean stop; crash points of the configuration write are C19's"],
    "level_text": "Seeded exploration of restart / pair / unpair histories against a model of identity, pairings, configuration number and discoverability, observed through the stub mDNS responder and the pairing store; the code space and the setup URI are enumerated.",
    "level_note": "Sampling of histories; enumeration of the pure sub-claims (complete over codes in the thorough tier).",
    "technique": "deterministic simulation of restart histories with a reference model; plain enumeration for the pure sub-claims",
}

# properties whose worlds run against a copy of hc instrumented with lock probes and yield points
# (see sim/instrument); the yield points are active in a quarter of the workers
for _p in ["C01", "C02", "C03", "C04", "C05", "C08", "C09", "C10", "C11", "C12", "C13", "C20"]:
    PROPS[_p]["fine"] = True
    PROPS[_p]["real"] = [r.replace("built from /repo's working tree with -tags verif", "built from a copy of /repo's working tree, taken when the check starts, into which /verif/sim/instrument inserted lock probes and yield points (go/ast; tags 'verif verifpt'); the plain tree with -tags verif if that build fails") for r in PROPS[_p]["real"]]
    PROPS[_p]["assumptions"] = PROPS[_p]["assumptions"] + ["the workers run a copy of /repo's working tree into which go/ast inserted a lock probe before every Lock / RLock statement and a yield point before the statements of hc's functions (not inside loops, not in functions that take a lock themselves); in a quarter of the workers a per-run subset of the yield points are park points"]

# C20's concurrency (pairing changes on two connections) only shows at statement granularity
PROPS["C20"]["fine_fraction"] = 0.5
