#!/bin/bash
cd "$(dirname "$0")"
for p in C12 C05 C06 C07 C18; do out=$(./check $p --tier thorough --seed 3 2>&1); e=$?; echo "== $p seed=3 exit=$e :: $(echo "$out" | grep -v '^  "' | grep -i "tier=\|VIOLATION\|CHECK-ERROR" | head -3 | cut -c1-250 | tr '\n' ' ')"; done
