#!/usr/bin/env python3
"""Applies a seeded change to a scratch worktree of /repo and runs checks against it.

  ./evalmut.py <patch.diff> <prop>[,<prop>...] [--budget S] [--skip-suite] [--tier quick]

Prints one line per check: CAUGHT (exit 1 with a VIOLATION line), MISSED (exit 0) or UNSURE (exit 2).
The worktree is removed afterwards.
"""
import argparse, os, shutil, subprocess, sys, tempfile

ROOT = os.path.dirname(os.path.abspath(__file__))


def main():
    ap = argparse.ArgumentParser()
    ap.add_argument("patch")
    ap.add_argument("props")
    ap.add_argument("--budget", default=None)
    ap.add_argument("--tier", default="quick")
    ap.add_argument("--skip-suite", action="store_true")
    ap.add_argument("--seed", default="1")
    a = ap.parse_args()
    os.makedirs("/tmp/scratch", exist_ok=True)
    wt = tempfile.mkdtemp(prefix="mut-", dir="/tmp/scratch")
    os.rmdir(wt)
    try:
        subprocess.run(["git", "-C", "/repo", "worktree", "add", "-f", "--detach", wt, "HEAD"], check=True, stdout=subprocess.DEVNULL, stderr=subprocess.DEVNULL)
        r = subprocess.run(["git", "-C", wt, "apply", os.path.abspath(a.patch)], stdout=subprocess.PIPE, stderr=subprocess.STDOUT, text=True)
        if r.returncode != 0:
            r = subprocess.run(["git", "-C", wt, "apply", "--3way", os.path.abspath(a.patch)], stdout=subprocess.PIPE, stderr=subprocess.STDOUT, text=True)
        if r.returncode != 0:
            print("PATCH-DOES-NOT-APPLY", r.stdout)
            return 3
        env = dict(os.environ)
        env.update({"GOFLAGS": "-mod=mod", "GOPROXY": "off", "GOSUMDB": "off"})
        if not a.skip_suite:
            r = subprocess.run("go build ./... && go test -vet=off -count=1 ./...", shell=True, cwd=wt, env=env, stdout=subprocess.PIPE, stderr=subprocess.STDOUT, text=True)
            if r.returncode != 0:
                print("SUITE-FAILS-WITH-PATCH")
                print(r.stdout[-1500:])
                return 3
            print("suite passes with the patch")
        env["VERIF_REPO"] = wt
        env["VERIF_SEED"] = a.seed
        rc_all = 0
        for prop in a.props.split(","):
            cmd = [os.path.join(ROOT, "check"), prop, "--tier", a.tier]
            if a.budget:
                cmd += ["--budget", a.budget]
            r = subprocess.run(cmd, cwd=ROOT, env=env, stdout=subprocess.PIPE, stderr=subprocess.STDOUT, text=True)
            verdict = {0: "MISSED", 1: "CAUGHT", 2: "UNSURE"}.get(r.returncode, "rc=%d" % r.returncode)
            lines = [l for l in r.stdout.splitlines() if l.startswith("VIOLATION") or l.startswith("  class=") or l.startswith("  scenario=") or "CHECK-ERROR" in l or "tier=" in l]
            print("%s %s" % (verdict, prop))
            for l in lines[:6]:
                print("    " + l[:400])
        return rc_all
    finally:
        subprocess.run(["git", "-C", "/repo", "worktree", "remove", "--force", wt], stdout=subprocess.DEVNULL, stderr=subprocess.DEVNULL)
        shutil.rmtree(wt, ignore_errors=True)
        subprocess.run(["git", "-C", "/repo", "worktree", "prune"], stdout=subprocess.DEVNULL, stderr=subprocess.DEVNULL)


if __name__ == "__main__":
    sys.exit(main())
