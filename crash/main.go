// Command crash enumerates every crash point of hc's storage writes.
//
// A child (this same binary, re-executed with "child") performs one storage operation on a
// prepared directory while a ptrace tracer counts the file-system syscalls whose path or
// descriptor lies under that directory and kills the whole child before the k-th of them.
// Afterwards a fresh store opened on the directory must show, for the written key, the old
// or the new value in full, and every other key untouched.
package main

import (
	"bytes"
	"encoding/json"
	"fmt"
	"os"
	"path/filepath"
	"runtime"
	"sort"
	"strings"
	"syscall"
	"time"

	"github.com/brutella/hc"
	"github.com/brutella/hc/accessory"
	"github.com/brutella/hc/db"
	hclog "github.com/brutella/hc/log"
	"github.com/brutella/hc/util"
)

// ---------- scenarios ----------

type Scenario struct {
	Name   string `json:"name"`
	Kind   string `json:"kind"` // set, entity, config
	OldLen int    `json:"old_len"` // -1: absent
	NewLen int    `json:"new_len"`
}

func pattern(tag byte, n int) []byte {
	b := make([]byte, n)
	for i := range b {
		b[i] = tag + byte(i%23)
	}
	return b
}

const theKey = "thekey"

var otherKeys = map[string][]byte{"other1": []byte("other-value-1"), "uuid-like": []byte("AA:BB:CC:DD:EE:FF")}

func oldEntity() db.Entity {
	return db.NewEntity("controller-1", pattern('a', 32), nil)
}
func newEntity() db.Entity {
	return db.NewEntity("controller-1", pattern('N', 32), pattern('P', 64))
}
func bystander() db.Entity { return db.NewEntity("controller-2", pattern('z', 32), nil) }

func accessoriesV(v int) []*accessory.Accessory {
	info := accessory.Info{Name: "CrashAcc"}
	if v == 1 {
		return []*accessory.Accessory{accessory.NewSwitch(info).Accessory}
	}
	return []*accessory.Accessory{accessory.NewSwitch(info).Accessory, accessory.NewOutlet(accessory.Info{Name: "Second"}).Accessory}
}

// prepare builds the directory as an earlier run would have left it.
func prepare(dir string, sc Scenario) error {
	hclog.Info.Disable()
	st, err := util.NewFileStorage(dir)
	if err != nil {
		return err
	}
	for k, v := range otherKeys {
		if err := st.Set(k, v); err != nil {
			return err
		}
	}
	d := db.NewDatabaseWithStorage(st)
	if err := d.SaveEntity(bystander()); err != nil {
		return err
	}
	switch sc.Kind {
	case "set":
		if sc.OldLen >= 0 {
			return st.Set(theKey, pattern('o', sc.OldLen))
		}
	case "entity":
		if sc.OldLen >= 0 {
			return d.SaveEntity(oldEntity())
		}
	case "config":
		// a first start with one accessory, then force version 9
		if _, err := hc.NewIPTransport(hc.Config{StoragePath: dir, Pin: "00102003"}, accessoriesV(1)[0]); err != nil {
			return err
		}
		return st.Set("version", []byte("9"))
	}
	return nil
}

// operate is what the traced child does.
func operate(dir string, sc Scenario) error {
	hclog.Info.Disable()
	switch sc.Kind {
	case "set":
		st, err := util.NewFileStorage(dir)
		if err != nil {
			return err
		}
		return st.Set(theKey, pattern('n', sc.NewLen))
	case "entity":
		d, err := db.NewDatabase(dir)
		if err != nil {
			return err
		}
		return d.SaveEntity(newEntity())
	case "config":
		as := accessoriesV(2)
		_, err := hc.NewIPTransport(hc.Config{StoragePath: dir, Pin: "00102003"}, as[0], as[1:]...)
		return err
	}
	return fmt.Errorf("unknown scenario kind %q", sc.Kind)
}

type snapshot map[string][]byte

func snap(dir string) (snapshot, error) {
	out := snapshot{}
	es, err := os.ReadDir(dir)
	if err != nil {
		return nil, err
	}
	for _, e := range es {
		b, err := os.ReadFile(filepath.Join(dir, e.Name()))
		if err != nil {
			return nil, err
		}
		out[e.Name()] = b
	}
	return out, nil
}

// verify inspects the directory after a kill at crash point k through a fresh store.
// before is the state prepared, after the state of a complete run.
func verify(dir string, sc Scenario, before, after snapshot) string {
	st, err := util.NewFileStorage(dir)
	if err != nil {
		return "fresh store cannot be opened: " + err.Error()
	}
	d := db.NewDatabaseWithStorage(st)
	check := func(key string) string {
		old, hadOld := before[key]
		nw, hasNew := after[key]
		got, err := st.Get(key)
		if err != nil {
			if !hadOld {
				return ""
			}
			return fmt.Sprintf("key %q is gone (had %d bytes before the write)", key, len(old))
		}
		if hadOld && bytes.Equal(got, old) {
			return ""
		}
		if hasNew && bytes.Equal(got, nw) {
			return ""
		}
		kind := "a mixture"
		if len(got) == 0 {
			kind = "empty"
		} else if hasNew && len(got) < len(nw) && bytes.Equal(got, nw[:len(got)]) {
			kind = "a truncated new value"
		}
		return fmt.Sprintf("key %q holds %s: %d bytes, neither the previous value (%d bytes, present=%v) nor the new value (%d bytes)", key, kind, len(got), len(old), hadOld, len(nw))
	}
	// every key that a complete run writes or that existed before
	keys := map[string]bool{}
	for k := range before {
		keys[k] = true
	}
	for k := range after {
		keys[k] = true
	}
	var ks []string
	for k := range keys {
		ks = append(ks, k)
	}
	sort.Strings(ks)
	for _, k := range ks {
		if strings.HasSuffix(k, ".tmp") || strings.HasPrefix(k, ".") {
			continue
		}
		changed := !bytes.Equal(before[k], after[k]) || len(before[k]) != len(after[k])
		_, hadOld := before[k]
		_, hasNew := after[k]
		if !changed && hadOld && hasNew {
			// untouched by the operation: must be byte-identical
			got, err := st.Get(k)
			if err != nil || !bytes.Equal(got, before[k]) {
				return fmt.Sprintf("key %q, whose value the operation does not change, is damaged: %d bytes instead of %d (err=%v)", k, len(got), len(before[k]), err)
			}
			continue
		}
		if msg := check(k); msg != "" {
			return msg
		}
	}
	// the pairing database must load, and list exactly old-or-new entities
	es, err := d.Entities()
	if err != nil {
		return "Entities() fails after the crash: " + err.Error()
	}
	names := map[string]bool{}
	for _, e := range es {
		names[e.Name] = true
		if len(e.PublicKey) == 0 {
			return fmt.Sprintf("entity %q has no public key after the crash", e.Name)
		}
	}
	if !names["controller-2"] {
		return "the bystander entity controller-2 is not listed after the crash"
	}
	if sc.Kind == "entity" {
		e, err := d.EntityWithName("controller-1")
		if err != nil {
			if sc.OldLen >= 0 {
				return "entity controller-1 cannot be loaded after the crash: " + err.Error()
			}
		} else {
			o, n := oldEntity(), newEntity()
			isOld := sc.OldLen >= 0 && bytes.Equal(e.PublicKey, o.PublicKey) && len(e.PrivateKey) == 0
			isNew := bytes.Equal(e.PublicKey, n.PublicKey) && bytes.Equal(e.PrivateKey, n.PrivateKey)
			if !isOld && !isNew {
				return "entity controller-1 is neither the old nor the new entity after the crash"
			}
		}
	}
	// the store must go on behaving like a map after the crash: a completed write of a
	// shorter and then of a longer value through the fresh store reads back exactly
	// (a leftover of the interrupted write must not leak into later values)
	for _, k := range ks {
		if strings.HasSuffix(k, ".tmp") || strings.HasPrefix(k, ".") || strings.HasSuffix(k, ".entity") {
			continue
		}
		if _, touched := after[k]; !touched {
			continue
		}
		if bytes.Equal(before[k], after[k]) && sc.Kind != "config" {
			continue
		}
		for _, v := range [][]byte{[]byte("xyz"), pattern('L', 6000), {}} {
			if err := st.Set(k, v); err != nil {
				return fmt.Sprintf("follow-up Set(%q, %d bytes) after the crash fails: %v", k, len(v), err)
			}
			got, err := st.Get(k)
			if err != nil || !bytes.Equal(got, v) {
				return fmt.Sprintf("after the crash a completed Set(%q, %d bytes) reads back as %d bytes (err=%v): a leftover of the interrupted write leaked into the value", k, len(v), len(got), err)
			}
		}
	}
	if sc.Kind == "entity" {
		e := db.NewEntity("controller-1", pattern('F', 32), nil)
		if err := d.SaveEntity(e); err != nil {
			return "follow-up SaveEntity after the crash fails: " + err.Error()
		}
		got, err := d.EntityWithName("controller-1")
		if err != nil || !bytes.Equal(got.PublicKey, e.PublicKey) || len(got.PrivateKey) != 0 {
			return fmt.Sprintf("after the crash a completed SaveEntity does not read back (err=%v)", err)
		}
	}
	return ""
}

// ---------- tracer ----------

const (
	sysRead      = 0
	sysWrite     = 1
	sysOpen      = 2
	sysClose     = 3
	sysPwrite64  = 18
	sysWritev    = 20
	sysFsync     = 74
	sysFdatasync = 75
	sysTruncate  = 76
	sysFtruncate = 77
	sysRename    = 82
	sysMkdir     = 83
	sysCreat     = 85
	sysLink      = 86
	sysUnlink    = 87
	sysSymlink   = 88
	sysOpenat    = 257
	sysMkdirat   = 258
	sysUnlinkat  = 263
	sysRenameat  = 264
	sysLinkat    = 265
	sysSymlinkat = 266
	sysRenameat2 = 316
)

var sysNames = map[uint64]string{sysWrite: "write", sysOpen: "open", sysClose: "close", sysPwrite64: "pwrite64", sysWritev: "writev", sysFsync: "fsync", sysFdatasync: "fdatasync", sysTruncate: "truncate", sysFtruncate: "ftruncate", sysRename: "rename", sysMkdir: "mkdir", sysCreat: "creat", sysLink: "link", sysUnlink: "unlink", sysSymlink: "symlink", sysOpenat: "openat", sysMkdirat: "mkdirat", sysUnlinkat: "unlinkat", sysRenameat: "renameat", sysLinkat: "linkat", sysSymlinkat: "symlinkat", sysRenameat2: "renameat2"}

func peekString(pid int, addr uintptr) string {
	var out []byte
	buf := make([]byte, 256)
	for len(out) < 4096 {
		n, err := syscall.PtracePeekData(pid, addr+uintptr(len(out)), buf)
		if err != nil || n == 0 {
			break
		}
		if i := bytes.IndexByte(buf[:n], 0); i >= 0 {
			out = append(out, buf[:i]...)
			break
		}
		out = append(out, buf[:n]...)
	}
	return string(out)
}

func fdPath(pid int, fd uint64) string {
	p, err := os.Readlink(fmt.Sprintf("/proc/%d/fd/%d", pid, fd))
	if err != nil {
		return ""
	}
	return p
}

// relevant decides whether a syscall at its entry touches the directory; it returns a description.
func relevant(pid, tid int, regs *syscall.PtraceRegs, dir string) (string, bool) {
	nr := regs.Orig_rax
	name, ok := sysNames[nr]
	if !ok {
		return "", false
	}
	under := func(p string) bool { return p == dir || strings.HasPrefix(p, dir+"/") }
	var path string
	switch nr {
	case sysOpen, sysTruncate, sysMkdir, sysCreat, sysUnlink:
		path = peekString(tid, uintptr(regs.Rdi))
	case sysRename, sysLink, sysSymlink:
		path = peekString(tid, uintptr(regs.Rdi)) + " -> " + peekString(tid, uintptr(regs.Rsi))
		if under(peekString(tid, uintptr(regs.Rdi))) || under(peekString(tid, uintptr(regs.Rsi))) {
			return name + " " + path, true
		}
		return "", false
	case sysOpenat, sysMkdirat, sysUnlinkat:
		path = peekString(tid, uintptr(regs.Rsi))
	case sysRenameat, sysRenameat2, sysLinkat:
		a, b := peekString(tid, uintptr(regs.Rsi)), peekString(tid, uintptr(regs.R10))
		if under(a) || under(b) {
			return name + " " + a + " -> " + b, true
		}
		return "", false
	case sysSymlinkat:
		path = peekString(tid, uintptr(regs.Rdx))
	case sysWrite, sysPwrite64, sysWritev, sysFsync, sysFdatasync, sysFtruncate, sysClose:
		path = fdPath(pid, regs.Rdi)
		if under(path) {
			extra := ""
			if nr == sysWrite || nr == sysPwrite64 {
				extra = fmt.Sprintf(" n=%d", regs.Rdx)
			}
			if nr == sysFtruncate {
				extra = fmt.Sprintf(" len=%d", regs.Rsi)
			}
			return name + " " + path + extra, true
		}
		return "", false
	}
	if under(path) {
		extra := ""
		if nr == sysOpenat {
			extra = fmt.Sprintf(" flags=%#o", regs.Rdx)
		}
		return name + " " + path + extra, true
	}
	return "", false
}

// trace runs the child and kills it before its killAt-th relevant syscall (0: never).
// It returns the list of relevant syscalls that were allowed to run and whether the child was killed.
func trace(self string, args []string, dir string, killAt int) (seen []string, killed bool, err error) {
	runtime.LockOSThread()
	defer runtime.UnlockOSThread()
	attr := &syscall.ProcAttr{
		Files: []uintptr{0, 1, 2},
		Env:   append(os.Environ(), "GOMAXPROCS=1"),
		Sys:   &syscall.SysProcAttr{Ptrace: true, Setpgid: true},
	}
	pid, err := syscall.ForkExec(self, append([]string{self}, args...), attr)
	if err != nil {
		return nil, false, err
	}
	var ws syscall.WaitStatus
	if _, err = syscall.Wait4(pid, &ws, 0, nil); err != nil {
		return nil, false, err
	}
	const opts = syscall.PTRACE_O_TRACECLONE | syscall.PTRACE_O_TRACEFORK | syscall.PTRACE_O_TRACEVFORK | syscall.PTRACE_O_TRACESYSGOOD | 0x100000 /* EXITKILL */
	if err = syscall.PtraceSetOptions(pid, opts); err != nil {
		syscall.Kill(pid, syscall.SIGKILL)
		return nil, false, err
	}
	syscall.PtraceSyscall(pid, 0)
	live := map[int]bool{pid: true}
	count := 0
	deadline := time.Now().Add(60 * time.Second)
	for len(live) > 0 {
		if time.Now().After(deadline) {
			syscall.Kill(-pid, syscall.SIGKILL)
			syscall.Kill(pid, syscall.SIGKILL)
			return seen, killed, fmt.Errorf("traced child did not finish in 60s")
		}
		tid, werr := syscall.Wait4(-1, &ws, syscall.WALL, nil)
		if werr != nil {
			if werr == syscall.EINTR {
				continue
			}
			if werr == syscall.ECHILD {
				break
			}
			return seen, killed, werr
		}
		if ws.Exited() || ws.Signaled() {
			delete(live, tid)
			continue
		}
		if !ws.Stopped() {
			continue
		}
		live[tid] = true
		sig := ws.StopSignal()
		switch {
		case sig == syscall.SIGTRAP|0x80:
			var regs syscall.PtraceRegs
			if e := syscall.PtraceGetRegs(tid, &regs); e == nil && int64(regs.Rax) == -int64(syscall.ENOSYS) {
				if desc, ok := relevant(pid, tid, &regs, dir); ok {
					count++
					if killAt > 0 && count == killAt {
						killed = true
						syscall.Kill(pid, syscall.SIGKILL)
						// reap everything
						for {
							t, e := syscall.Wait4(-1, &ws, syscall.WALL, nil)
							if e != nil && e != syscall.EINTR {
								break
							}
							_ = t
						}
						return seen, true, nil
					}
					seen = append(seen, desc)
				}
			}
			syscall.PtraceSyscall(tid, 0)
		case sig == syscall.SIGTRAP:
			// clone / fork / exec event
			syscall.PtraceSyscall(tid, 0)
		case sig == syscall.SIGSTOP:
			// initial stop of a new thread
			syscall.PtraceSyscall(tid, 0)
		default:
			syscall.PtraceSyscall(tid, int(sig))
		}
	}
	return seen, killed, nil
}

// ---------- driver ----------

type PointResult struct {
	K        int    `json:"k"`
	Killed   bool   `json:"killed"`
	Before   string `json:"before_syscall,omitempty"`
	Verdict  string `json:"verdict"`
	Detail   string `json:"detail,omitempty"`
	DirAfter string `json:"dir_after,omitempty"`
}

type ScenarioResult struct {
	Scenario Scenario      `json:"scenario"`
	Syscalls []string      `json:"syscalls"`
	Points   []PointResult `json:"points"`
	Error    string        `json:"error,omitempty"`
}

func scenarios() []Scenario {
	var out []Scenario
	olds, news := []int{-1, 10, 37, 9000}, []int{1, 37, 5000}
	if os.Getenv("VERIF_TIER") == "thorough" {
		olds, news = []int{-1, 0, 1, 10, 37, 4095, 4096, 4097, 9000, 70000}, []int{0, 1, 37, 4095, 4096, 4097, 5000, 70000}
	}
	for _, o := range olds {
		for _, n := range news {
			out = append(out, Scenario{Name: fmt.Sprintf("set old=%d new=%d", o, n), Kind: "set", OldLen: o, NewLen: n})
		}
	}
	out = append(out, Scenario{Name: "entity overwrite", Kind: "entity", OldLen: 1})
	out = append(out, Scenario{Name: "entity create", Kind: "entity", OldLen: -1})
	out = append(out, Scenario{Name: "config rewrite on restart (version 9 -> 10)", Kind: "config", OldLen: 1})
	return out
}

func describeDir(dir string) string {
	s, _ := snap(dir)
	var ks []string
	for k, v := range s {
		ks = append(ks, fmt.Sprintf("%s(%d)", k, len(v)))
	}
	sort.Strings(ks)
	return strings.Join(ks, " ")
}

func runScenario(self, base string, sc Scenario, only int) ScenarioResult {
	res := ScenarioResult{Scenario: sc}
	scb, _ := json.Marshal(sc)
	mk := func() (string, error) {
		dir, err := os.MkdirTemp(base, "crash")
		if err != nil {
			return "", err
		}
		dir, _ = filepath.EvalSymlinks(dir)
		work := filepath.Join(dir, "store")
		return work, prepare(work, sc)
	}
	// pass 1: complete run
	dir, err := mk()
	if err != nil {
		res.Error = "prepare: " + err.Error()
		return res
	}
	before, _ := snap(dir)
	seen, _, err := trace(self, []string{"child", dir, string(scb)}, dir, 0)
	if err != nil {
		res.Error = "trace: " + err.Error()
		return res
	}
	after, _ := snap(dir)
	res.Syscalls = seen
	if msg := verify(dir, sc, before, after); msg != "" {
		res.Points = append(res.Points, PointResult{K: len(seen) + 1, Verdict: "violation", Detail: "after a complete run: " + msg})
	} else {
		res.Points = append(res.Points, PointResult{K: len(seen) + 1, Verdict: "ok"})
	}
	os.RemoveAll(filepath.Dir(dir))
	if len(seen) == 0 {
		res.Error = "the traced child issued no file-system syscall under the directory"
		return res
	}
	for k := 1; k <= len(seen); k++ {
		if only > 0 && k != only {
			continue
		}
		dir, err := mk()
		if err != nil {
			res.Error = "prepare: " + err.Error()
			return res
		}
		beforeK, _ := snap(dir)
		afterK := snapshot{}
		for key, v := range beforeK {
			afterK[key] = v
		}
		for key := range before {
			if _, ok := after[key]; !ok {
				delete(afterK, key)
			}
		}
		for key, v := range after {
			if old, ok := before[key]; !ok || !bytes.Equal(old, v) {
				afterK[key] = v
			}
		}
		s2, killed, err := trace(self, []string{"child", dir, string(scb)}, dir, k)
		if err != nil {
			res.Error = "trace: " + err.Error()
			return res
		}
		pr := PointResult{K: k, Killed: killed, Before: seen[k-1]}
		if !killed || len(s2) != k-1 {
			pr.Verdict = "diverged"
			pr.Detail = fmt.Sprintf("the child did not reach crash point %d the same way (saw %d syscalls, killed=%v)", k, len(s2), killed)
		} else if msg := verify(dir, sc, beforeK, afterK); msg != "" {
			pr.Verdict = "violation"
			pr.Detail = msg
			pr.DirAfter = describeDir(dir)
		} else {
			pr.Verdict = "ok"
		}
		res.Points = append(res.Points, pr)
		os.RemoveAll(filepath.Dir(dir))
	}
	return res
}

func main() {
	if len(os.Args) >= 2 && os.Args[1] == "child" {
		var sc Scenario
		if err := json.Unmarshal([]byte(os.Args[3]), &sc); err != nil {
			fmt.Fprintln(os.Stderr, err)
			os.Exit(3)
		}
		if err := operate(os.Args[2], sc); err != nil {
			fmt.Fprintln(os.Stderr, "child:", err)
			os.Exit(4)
		}
		os.Exit(0)
	}
	self, _ := os.Executable()
	base := os.Getenv("TMPDIR")
	if base == "" {
		base = os.TempDir()
	}
	hclog.Info.Disable()
	var results []ScenarioResult
	if len(os.Args) >= 4 && os.Args[1] == "one" {
		var sc Scenario
		if err := json.Unmarshal([]byte(os.Args[2]), &sc); err != nil {
			fmt.Fprintln(os.Stderr, err)
			os.Exit(2)
		}
		var k int
		fmt.Sscanf(os.Args[3], "%d", &k)
		results = append(results, runScenario(self, base, sc, k))
	} else {
		for _, sc := range scenarios() {
			results = append(results, runScenario(self, base, sc, 0))
		}
	}
	b, _ := json.MarshalIndent(results, "", " ")
	os.Stdout.Write(b)
}
