#!/usr/bin/env python3
"""Stores a confirmed seeded change under /verif/seeded/<id>/ (patch.diff, demonstration, meta.json)."""
import json, os, shutil, sys
name, src, prop, needs, confirm_cmd, caught_by, status = sys.argv[1:8]
dst = os.path.join(os.path.dirname(os.path.abspath(__file__)), "seeded", name)
os.makedirs(dst, exist_ok=True)
for f in os.listdir(src):
    if f.endswith(".txt") and f.startswith("suite"):
        continue
    shutil.copy(os.path.join(src, f), os.path.join(dst, f))
meta = {"id": name, "breaks_property": prop, "needs_to_manifest": needs, "confirmed_with": confirm_cmd,
        "checks_run": caught_by, "status": status,
        "how_to_run_checks": "git -C /repo apply /verif/seeded/%s/patch.diff && (cd /verif && ./check %s); git -C /repo checkout -- ." % (name, prop)}
json.dump(meta, open(os.path.join(dst, "meta.json"), "w"), indent=1)
print("stored", dst)
