#!/bin/bash
# Thorough tier, further PRNG value, for the three worlds in which the thorough tier found defects before.
cd "$(dirname "$0")"
for p in C13 C03 C01; do out=$(./check $p --tier thorough --seed ${1:-4} 2>&1); e=$?; echo "== $p seed=${1:-4} exit=$e :: $(echo "$out" | grep -v '^  "' | grep -i "tier=\|VIOLATION\|CHECK-ERROR\|KNOWN" | head -3 | cut -c1-300 | tr '\n' ' ')"; done
