"""Self-test of the machinery: determinism of the simulator across processes and
GOMAXPROCS values, and a scan of hc for unordered iteration.

For each scenario family the same rapid seeds are run in several processes under
GOMAXPROCS 1, 4 and 16; the per-scenario event-log hashes must be identical.
"""
import json, os, re, shutil, subprocess, sys, tempfile, time

ROOT = os.path.dirname(os.path.abspath(__file__))
sys.path.insert(0, ROOT)


def main(a):
    import importlib.machinery, importlib.util
    loader = importlib.machinery.SourceFileLoader("chk", os.path.join(ROOT, "check"))
    spec = importlib.util.spec_from_loader("chk", loader)
    chk = importlib.util.module_from_spec(spec)
    loader.exec_module(chk)
    t0 = time.time()
    workdir = tempfile.mkdtemp(prefix="verif-selftest-")
    ok = True
    try:
        binary, _ = chk.build(workdir)
        fine, msg = chk.build_fine(workdir)
        if fine is None:
            print("selftest: fine-grained build failed: " + str(msg))
            return 2
        families = ["TestC04", "TestC01", "TestC13", "TestC08", "TestC10", "TestC09", "TestC07", "TestC20", "TestC02", "TestC03",
                    "fine:TestC12", "fine:TestC02", "fine:TestC08", "fine:TestC13", "fine:TestC04", "fine:TestC09"]
        evals = 40 if a.tier == "quick" else 250
        seeds = [1, 2] if a.tier == "quick" else [1, 2, 3, 4, 5, 6, 7, 8]
        procs = []
        for fam in families:
            for seed in seeds:
                for gmp in (1, 4, 16):
                    for rep in range(2 if gmp == 4 else 1):
                        tag = "%s-s%d-g%d-r%d" % (fam, seed, gmp, rep)
                        env = chk.goenv()
                        wbin, test = binary, fam
                        if fam.startswith("fine:"):
                            wbin, test = fine, fam[5:]
                            env["VERIF_FINE"] = "1"
                        env.update({"VERIF_SEED": str(seed), "VERIF_WORKER": "0", "VERIF_WORKERS": "1", "VERIF_BUDGET_S": "3600",
                                    "VERIF_MAX_EVALS": str(evals), "VERIF_OUT": os.path.join(workdir, tag + ".json"),
                                    "VERIF_TRACE_HASHES": os.path.join(workdir, tag + ".trace"), "VERIF_MAX_VIOLATIONS": "1000",
                                    "VERIF_KNOWN": os.path.join(ROOT, "known_findings.json"), "VERIF_REPLAY_DIR": workdir,
                                    "TMPDIR": workdir, "GOMAXPROCS": str(gmp), "VERIF_C20_ALL_CODES": "0"})
                        log = open(os.path.join(workdir, tag + ".log"), "w")
                        p = subprocess.Popen([wbin, "-test.run", "^%s$" % test, "-test.count=1", "-test.timeout=2h"],
                                             cwd=os.path.join(chk.SIM, "props"), env=env, stdout=log, stderr=subprocess.STDOUT)
                        procs.append((fam, seed, tag, p, log))
                        while sum(1 for x in procs if x[3].poll() is None) >= 16:
                            time.sleep(0.2)
        groups = {}
        for fam, seed, tag, p, log in procs:
            rc = p.wait()
            log.close()
            if rc != 0:
                print("selftest: process %s exited with %d" % (tag, rc))
                print(open(os.path.join(workdir, tag + ".log")).read()[-1500:])
                ok = False
                continue
            tr = open(os.path.join(workdir, tag + ".trace")).read()
            groups.setdefault((fam, seed), []).append((tag, tr))
        total = 0
        for (fam, seed), lst in sorted(groups.items()):
            ref = lst[0][1]
            n = len(ref.splitlines())
            total += n * len(lst)
            for tag, tr in lst[1:]:
                if tr != ref:
                    ok = False
                    a_l, b_l = ref.splitlines(), tr.splitlines()
                    for i in range(max(len(a_l), len(b_l))):
                        x = a_l[i] if i < len(a_l) else "<end>"
                        y = b_l[i] if i < len(b_l) else "<end>"
                        if x != y:
                            print("selftest: DIVERGENCE %s vs %s at scenario %d: %s | %s" % (lst[0][0], tag, i + 1, x, y))
                            break
            print("selftest: %s seed %d: %d scenarios x %d processes (GOMAXPROCS 1,4,4,16): %s" % (fam, seed, n, len(lst), "identical" if all(t == ref for _, t in lst) else "DIFFERENT"))
        # unordered iteration in hc (information + guard)
        repo = os.environ.get("VERIF_REPO", "/repo")
        hits = subprocess.run("grep -rn --include=*.go -e '\\.Range(' %s | grep -v _test.go | grep -v /gen/ | grep -v _example" % repo, shell=True, stdout=subprocess.PIPE, text=True).stdout
        if hits.strip():
            print("selftest: sync.Map style iteration found in hc (review for replay determinism):")
            print(hits)
        print("selftest: %d scenario executions compared in %.1fs: %s" % (total, time.time() - t0, "OK" if ok else "FAILED"))
        return 0 if ok else 2
    finally:
        shutil.rmtree(workdir, ignore_errors=True)
