#!/bin/sh
# Builds the framework from files on disk only (offline) and warms the go1.26.8 build cache.
set -e
cd "$(dirname "$0")"
export GOFLAGS=-mod=mod GOPROXY=off GOSUMDB=off GOTOOLCHAIN=local CGO_ENABLED=0
mkdir -p .build replays evidence
cd sim
go1.26.8 vet -tags verif ./core/ ./ref/ >/dev/null 2>&1 || true
go1.26.8 test -c -tags verif -o ../.build/props.test ./props/
rm -f ../.build/props.test
go1.26.8 build -o ../.build/instrument ./instrument && rm -f ../.build/instrument
go1.26.8 build -o ../.build/registry_gen ./registry_gen && rm -f ../.build/registry_gen
(cd ../crash && go1.26.8 build -o ../.build/crash . && rm -f ../.build/crash)
echo setup ok
