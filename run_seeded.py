#!/usr/bin/env python3
"""Runs the check of the property each stored seeded change breaks and writes seeded/RESULTS.md."""
import json, os, subprocess, sys, time
ROOT = os.path.dirname(os.path.abspath(__file__))
rows = []
names = sorted(d for d in os.listdir(os.path.join(ROOT, "seeded")) if os.path.isdir(os.path.join(ROOT, "seeded", d)))
only = sys.argv[1:]
for name in names:
    if only and not any((name.startswith(o[1:]) if o.startswith("^") else o in name) for o in only):
        continue
    meta = json.load(open(os.path.join(ROOT, "seeded", name, "meta.json")))
    if meta.get("status", "").startswith("obsolete"):
        rows.append((name, meta["breaks_property"], "n/a (no longer breaks the property: " + meta["status"] + ")", "", 0))
        continue
    prop = meta.get("check_with", meta["breaks_property"])
    t0 = time.time()
    r = subprocess.run([os.path.join(ROOT, "evalmut.py"), os.path.join(ROOT, "seeded", name, "patch.diff"), prop, "--skip-suite"],
                       cwd=ROOT, stdout=subprocess.PIPE, stderr=subprocess.STDOUT, text=True)
    verdict = "?"
    cls = ""
    for l in r.stdout.splitlines():
        if l.startswith(("CAUGHT", "MISSED", "UNSURE", "PATCH")):
            if verdict != "CAUGHT":
                verdict = l.split()[0]
            if l.startswith("CAUGHT"):
                verdict = "CAUGHT by " + l.split()[1]
        if "class=" in l and not cls:
            cls = l.strip().split(" detail=")[0].replace("class=", "")
        if "scenario=" in l and not cls:
            cls = l.strip()[:80]
    rows.append((name, prop, verdict, cls, time.time() - t0))
    print(name, prop, verdict, cls, flush=True)
out = os.environ.get("SEEDED_RESULTS", os.path.join(ROOT, "seeded", "RESULTS.md"))
with open(out, "w") as f:
    f.write("# Seeded changes against the quick tier of their property's check\n\n")
    f.write("Produced by `./run_seeded.py` (each change applied to a scratch worktree of /repo HEAD, check run with VERIF_REPO pointing at it).\n\n")
    f.write("| seeded change | property | quick check | first violation class | seconds |\n|---|---|---|---|---|\n")
    for name, prop, verdict, cls, dt in rows:
        f.write("| %s | %s | %s | %s | %.0f |\n" % (name, prop, verdict, cls, dt))
live = [r for r in rows if not r[2].startswith("n/a")]
print("caught %d of %d" % (sum(1 for r in live if r[2].startswith("CAUGHT")), len(live)))
