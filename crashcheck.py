"""C19: crash-point enumeration with the ptrace tracer in /verif/crash."""
import json, os, shutil, subprocess, sys, tempfile, time

ROOT = os.path.dirname(os.path.abspath(__file__))
CRASH = os.path.join(ROOT, "crash")
REPO = os.environ.get("VERIF_REPO", "/repo")
OUTROOT = "/tmp/scratch/verif-out" if os.path.realpath(REPO) != "/repo" else ROOT
GO = "go1.26.8"


def goenv():
    env = dict(os.environ)
    env.update({"GOFLAGS": "-mod=mod", "GOPROXY": "off", "GOSUMDB": "off", "GOTOOLCHAIN": "local", "CGO_ENABLED": "0"})
    return env


def load_known(pid):
    try:
        d = json.load(open(os.path.join(ROOT, "known_findings.json")))
    except Exception:
        return []
    return [k for k in d["findings"] if k["property"] == pid and k["status"] == "open"]


def main(a, meta):
    pid = "C19"
    t0 = time.time()
    workdir = tempfile.mkdtemp(prefix="verif-C19-")
    try:
        binary = os.path.join(workdir, "crash")
        cmd = [GO, "build", "-o", binary]
        if os.path.realpath(REPO) != "/repo":
            mod = open(os.path.join(CRASH, "go.mod")).read().replace("=> /repo", "=> " + os.path.realpath(REPO))
            open(os.path.join(workdir, "go.mod"), "w").write(mod)
            shutil.copy(os.path.join(CRASH, "go.sum"), os.path.join(workdir, "go.sum"))
            cmd += ["-modfile", os.path.join(workdir, "go.mod")]
        cmd.append(".")
        p = subprocess.run(cmd, cwd=CRASH, env=goenv(), stdout=subprocess.PIPE, stderr=subprocess.STDOUT, text=True)
        if p.returncode != 0:
            print(p.stdout)
            print("CHECK-ERROR: build of the crash tracer against %s failed" % REPO)
            return 2
        env = goenv()
        env["TMPDIR"] = workdir
        env["VERIF_TIER"] = a.tier
        if a.replay:
            rf = json.load(open(a.replay))
            args = [binary, "one", json.dumps(rf["scenario"]), str(rf["k"])]
        else:
            args = [binary]
        p = subprocess.run(args, env=env, stdout=subprocess.PIPE, stderr=subprocess.PIPE, text=True, timeout=3600)
        if p.returncode != 0:
            print(p.stdout[-2000:], p.stderr[-2000:])
            print("CHECK-ERROR: crash tracer exited with status %d" % p.returncode)
            return 2
        results = json.loads(p.stdout)
        known = load_known(pid)
        points = 0
        distinct = set()
        violations, trouble, samples, knownhits = [], [], [], {}
        syscalls_total = 0
        for r in results:
            if r.get("error"):
                trouble.append("%s: %s" % (r["scenario"]["name"], r["error"]))
            syscalls_total += len(r.get("syscalls") or [])
            for pt in r["points"]:
                points += 1
                distinct.add((r["scenario"]["name"], pt["k"]))
                if pt["verdict"] == "diverged":
                    trouble.append("%s k=%d: %s" % (r["scenario"]["name"], pt["k"], pt.get("detail")))
                elif pt["verdict"] == "violation":
                    sig = "%s|before %s" % (r["scenario"]["kind"] if "kind" in r["scenario"] else "", (pt.get("before_syscall") or "end").split(" ")[0])
                    matched = None
                    for k in known:
                        import re
                        if re.fullmatch(k["sig_regex"], sig):
                            matched = k
                    if matched:
                        knownhits.setdefault(matched["id"], [matched, 0])[1] += 1
                        continue
                    os.makedirs(os.path.join(OUTROOT, "replays"), exist_ok=True)
                    name = "C19-%s-k%d.json" % (r["scenario"]["name"].replace(" ", "_").replace("=", "").replace("(", "").replace(")", "").replace(">", ""), pt["k"])
                    path = os.path.join(OUTROOT, "replays", name)
                    json.dump({"property": pid, "scenario": r["scenario"], "k": pt["k"], "before_syscall": pt.get("before_syscall"),
                               "detail": pt.get("detail"), "dir_after": pt.get("dir_after"), "syscalls": r.get("syscalls")}, open(path, "w"), indent=1)
                    violations.append((path, r["scenario"]["name"], pt))
            if len(samples) < 3:
                samples.append({"scenario": r["scenario"], "syscalls_of_a_complete_run": r.get("syscalls"), "crash_points": [{"k": pt["k"], "before": pt.get("before_syscall"), "verdict": pt["verdict"]} for pt in r["points"]]})
        wall = time.time() - t0
        if not a.replay:
            ev = {
                "property_id": pid, "tier": a.tier, "seed": a.seed, "level": "fault_enumeration",
                "coverage": {
                    "evaluations": points, "distinct_nontrivial": len(distinct),
                    "rule": meta["rule"], "samples": samples, "exhaustive": True,
                    "scenarios": len(results), "file_syscalls_in_complete_runs": syscalls_total,
                    "faults_and_probes_fired": {"crash.kill_before_syscall": sum(1 for r in results for pt in r["points"] if pt.get("killed"))},
                    "components_real": meta["real"], "components_stub": meta["stub"],
                    "known_findings_reproduced": {k: v[1] for k, v in knownhits.items()},
                },
                "assumptions": meta["assumptions"], "wall_s": round(wall, 2), "violations": len(violations),
            }
            if trouble:
                ev["coverage"]["machinery_trouble"] = trouble[:5]
            os.makedirs(os.path.join(OUTROOT, "evidence"), exist_ok=True)
            json.dump(ev, open(os.path.join(OUTROOT, "evidence", pid + ".json"), "w"), indent=1, sort_keys=True)
        for k, (kf, n) in sorted(knownhits.items()):
            print("KNOWN-FINDING: property=%s %s [%s; %d crash points this run]" % (pid, kf["what"], k, n))
        for path, name, pt in violations:
            print("VIOLATION property=%s replay=%s" % (pid, path))
            print("  scenario=%s crash point k=%d (killed before: %s): %s" % (name, pt["k"], pt.get("before_syscall"), pt.get("detail")))
        print("C19 tier=%s: %d scenarios, %d crash points enumerated, %d violations, %.1fs" % (a.tier, len(results), points, len(violations), wall))
        if trouble:
            for tr in trouble[:5]:
                print("trouble:", tr)
            print("CHECK-ERROR: the tracer could not enumerate every crash point")
            return 2
        return 1 if violations else 0
    finally:
        shutil.rmtree(workdir, ignore_errors=True)
