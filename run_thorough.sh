#!/bin/bash
# Runs the thorough tier of every check and the thorough self-test; prints one line per property.
cd "$(dirname "$0")"
rc=0
for p in C01 C02 C03 C04 C05 C06 C07 C08 C09 C10 C11 C12 C13 C18 C19 C20; do
  out=$(./check $p --tier thorough 2>&1); e=$?
  echo "== $p exit=$e :: $(echo "$out" | grep -v '^  "' | grep -i "tier=\|VIOLATION\|CHECK-ERROR\|KNOWN\|trouble\|scenarios" | head -5 | cut -c1-300 | tr '\n' ' ')"
  [ $e -ne 0 ] && rc=1
done
out=$(./check selftest --tier thorough 2>&1); e=$?
echo "== selftest exit=$e :: $(echo "$out" | tail -1)"
echo "$out" | grep -v identical | head -20
[ $e -ne 0 ] && rc=1
exit $rc
