#!/usr/bin/env python3
"""Regenerates MANIFEST.json from props_meta.py (so the two never disagree)."""
import json, os, sys
ROOT = os.path.dirname(os.path.abspath(__file__))
sys.path.insert(0, ROOT)
from props_meta import PROPS, not_applicable, HOOK_COMMITS
NOT_APPLICABLE = not_applicable()

checks = []
for pid in sorted(PROPS):
    m = PROPS[pid]
    checks.append({
        "property_id": pid,
        "quick_cmd": "./check %s --tier quick" % pid,
        "thorough_cmd": "./check %s --tier thorough" % pid,
        "evidence_file": "/verif/evidence/%s.json" % pid,
        "replay_cmd_template": "./check %s --replay {path}" % pid,
        "engine": m.get("engine_name", "sim"),
        "level_claimed": {"category": m["level"], "text": m["level_text"], "design_ref": m.get("design_ref", "DESIGN.md section 7")},
        "level_note": m["level_note"],
        "technique": m.get("technique", "deterministic simulation with fault injection: seeded search over schedules, segmentations and fault sequences with shrinking and exact replay"),
    })
man = {
    "version": 1,
    "setup_cmd": "./setup.sh",
    "hooks": {
        "guard": "verif",
        "enable": "go build tag: the checks build /repo with `go1.26.8 test -c -tags verif` through a replace directive in /verif/sim/go.mod; for the worlds that run the transport the check first copies /repo's working tree to a scratch directory and lets /verif/sim/instrument (go/ast) insert yield points and lock probes there (extra tag verifpt) - nothing of that is written to /repo",
        "baseline_off_cmd": "cd /repo && go test -vet=off -count=1 ./...",
        "source_commits": HOOK_COMMITS,
        "add_only": True,
    },
    "engines": [
        {"name": "sim", "path": "/verif/sim", "serves_properties": [p for p in sorted(PROPS) if PROPS[p].get("engine_name", "sim") == "sim"],
         "kind_free_text": "deterministic simulator (token scheduler over testing/synctest, in-memory network, stub mDNS, seeded entropy), reference controller/adversary, rapid-driven seeded search with shrinking, JSON replay files"},
        {"name": "crash", "path": "/verif/crash", "serves_properties": [p for p in sorted(PROPS) if PROPS[p].get("engine_name") == "crash"],
         "kind_free_text": "ptrace-based crash-point enumerator: kills a child built from /repo before its k-th file-system syscall"},
    ],
    "checks": checks,
    "not_applicable": NOT_APPLICABLE,
    "notes": "See DESIGN.md. Exit status 2 of a check means the machinery is unsure (build failure, watchdog, replay divergence, nondeterminism), never a verdict. known_findings.json lists genuine defects (open ones are printed as KNOWN-FINDING lines; fixed ones suppress nothing).",
}
json.dump(man, open(os.path.join(ROOT, "MANIFEST.json"), "w"), indent=1)
print("MANIFEST.json written:", len(checks), "checks,", len(NOT_APPLICABLE), "not applicable")
