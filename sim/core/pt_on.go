//go:build verifpt

package core

import (
	"fmt"
	"os"
	"sync"

	"github.com/brutella/hc/verifpt"
)

// Fine-grained mode: the tree under test was instrumented with yield points (see
// /verif/sim/instrument); they forward to the running simulation.
func init() {
	FineGrainedBuild = true
	LockUsers = verifpt.LockUsers
	verifpt.Hook = func(site int) {
		s := Current()
		if s == nil || s.InTeardown() {
			return
		}
		s.yieldPoint(site)
	}
	verifpt.LockHook = func(try func() bool) {
		s := Current()
		if s == nil || s.InTeardown() {
			return
		}
		if try() {
			return // free: nothing to wait for, and no extra step in the schedule
		}
		conn := s.GoroutineConn()
		s.Park("autolock", s.ActorName(conn), conn, "", try)
	}
	verifpt.SpawnHook = func(site int) int {
		s := Current()
		if s == nil || s.InTeardown() {
			return 0
		}
		return s.spawnTicket(site)
	}
	verifpt.EnterHook = func(ticket int) {
		s := Current()
		if s == nil {
			return
		}
		s.enterSpawned(ticket)
	}
	if os.Getenv("VERIF_FINE_DEBUG") != "" {
		var mu sync.Mutex
		seen := map[string]bool{}
		DebugYieldSkips = func(frame string) {
			mu.Lock()
			if !seen[frame] {
				seen[frame] = true
				fmt.Fprintln(os.Stderr, "yield point declines under", frame)
			}
			mu.Unlock()
		}
	}
}
