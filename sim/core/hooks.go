package core

import (
	"context"
	"net"
	"sort"
	"strconv"
	"sync"
	"sync/atomic"

	"github.com/brutella/dnssd"
	"github.com/brutella/hc"
	"github.com/brutella/hc/hap"
	haphttp "github.com/brutella/hc/hap/http"
)

// connID maps a hap connection (or a raw simulated end) to the simulated connection id.
func connID(c net.Conn) int {
	if hc, ok := c.(*hap.Connection); ok {
		c = hap.VerifUnderlying(hc)
	}
	if e, ok := c.(*End); ok {
		return e.c.ID
	}
	return -1
}

// ConnID is the exported form of connID.
func ConnID(c net.Conn) int { return connID(c) }

func init() {
	hap.VerifYield = func(op string, con net.Conn, b []byte) {
		s := Current()
		if s == nil || s.InTeardown() {
			return
		}
		id := connID(con)
		if id < 0 {
			return // not a simulated connection (direct harness opted out)
		}
		s.NoteGoroutineConn(id)
		p := &Parked{Kind: op, Conn: id}
		if s.OnPark != nil {
			s.OnPark(p, b)
		}
		s.Park(op, s.ActorName(id), id, "", nil)
	}
	hap.VerifOrderConns = func(cs []net.Conn) []net.Conn {
		s := Current()
		if s == nil {
			return cs
		}
		sort.SliceStable(cs, func(i, j int) bool { return connID(cs[i]) < connID(cs[j]) })
		if s.InTeardown() {
			return cs
		}
		// the order in which connections are notified is a scheduler choice
		if len(cs) > 1 {
			v := s.next()
			if v != 0 {
				s.Count("order.permuted")
				// rotate / reverse derived from v
				k := v % len(cs)
				cs = append(cs[k:], cs[:k]...)
				if (v/len(cs))%2 == 1 {
					for i, j := 0, len(cs)-1; i < j; i, j = i+1, j-1 {
						cs[i], cs[j] = cs[j], cs[i]
					}
				}
			}
			s.Logf("  order %d", v)
		}
		return cs
	}
	haphttp.VerifListen = func(port string) net.Listener {
		s := Current()
		if s == nil {
			panic("verif: NewServer without a running simulation")
		}
		return s.NewListener(port)
	}
	lockPark := func(kind string) func(m *sync.Mutex) {
		return func(m *sync.Mutex) {
			s := Current()
			if s == nil || s.InTeardown() {
				return
			}
			// named after the connection the goroutine works on (known in the instrumented build), so
			// that two goroutines waiting for their locks in the same step have a stable order
			conn := s.GoroutineConn()
			s.Park(kind, s.ActorName(conn), conn, "", func() bool {
				if m.TryLock() {
					m.Unlock()
					return true
				}
				return false
			})
		}
	}
	haphttp.VerifBeforeLock = lockPark("lock")
	hap.VerifBeforeLock = lockPark("wlock")
	hc.VerifResponder = func(r dnssd.Responder) dnssd.Responder {
		st := &Responder{}
		lastResponder.Store(st)
		return st
	}
}

var lastResponder atomic.Pointer[Responder]

// LastResponder returns the stub handed to the most recently created transport.
func LastResponder() *Responder { return lastResponder.Load() }

// Responder is the mDNS stub: it records what would be announced.
type Responder struct {
	mu      sync.Mutex
	Handles []*Handle
	Removed int
}

// Handle is the stub service handle.
type Handle struct {
	mu      sync.Mutex
	svc     dnssd.Service
	Updates int
}

func (r *Responder) Add(srv dnssd.Service) (dnssd.ServiceHandle, error) {
	h := &Handle{svc: srv}
	r.mu.Lock()
	r.Handles = append(r.Handles, h)
	r.mu.Unlock()
	return h, nil
}

func (r *Responder) Remove(h dnssd.ServiceHandle) {
	r.mu.Lock()
	r.Removed++
	r.mu.Unlock()
}

func (r *Responder) Respond(ctx context.Context) error {
	<-ctx.Done()
	return ctx.Err()
}

func (r *Responder) Debug(ctx context.Context, fn dnssd.ReadFunc) {}

// Text returns the TXT records most recently announced on the last handle.
func (r *Responder) Text() map[string]string {
	r.mu.Lock()
	defer r.mu.Unlock()
	if len(r.Handles) == 0 {
		return nil
	}
	h := r.Handles[len(r.Handles)-1]
	h.mu.Lock()
	defer h.mu.Unlock()
	out := map[string]string{}
	for k, v := range h.svc.Text {
		out[k] = v
	}
	return out
}

func (h *Handle) UpdateText(text map[string]string, r dnssd.Responder) {
	h.mu.Lock()
	h.svc.Text = text
	h.Updates++
	h.mu.Unlock()
}

func (h *Handle) Service() dnssd.Service {
	h.mu.Lock()
	defer h.mu.Unlock()
	return h.svc
}

var _ = strconv.Itoa
