package core

import (
	"errors"
	"fmt"
	"io"
	"net"
	"os"
	"strconv"
	"sync"
	"time"
)

// Addr is a simulated TCP address.
type Addr string

func (a Addr) Network() string { return "tcp" }
func (a Addr) String() string  { return string(a) }

type timeoutErr struct{}

func (timeoutErr) Error() string   { return "i/o timeout" }
func (timeoutErr) Timeout() bool   { return true }
func (timeoutErr) Temporary() bool { return true }

// ErrTimeout is what a read returns when its deadline expired; it satisfies net.Error
// and os.ErrDeadlineExceeded semantics as far as net/http and hc look.
var ErrTimeout error = &net.OpError{Op: "read", Net: "tcp", Err: os.ErrDeadlineExceeded}

var errReset = &net.OpError{Op: "read", Net: "tcp", Err: errors.New("connection reset by peer")}

// pipe is one direction of a connection.
type pipe struct {
	flight   []byte // written, not yet delivered (owned by the scheduler)
	fin      bool   // writer closed; EOF follows flight
	recv     []byte // delivered, not yet read
	eof      bool   // EOF delivered
	rst      bool
	waiters  []chan struct{}
	deadline time.Time
	hasDL    bool
	total    int // bytes ever written
}

// Conn is a simulated TCP connection. Side 0 is the client (dialer), side 1 the server.
type Conn struct {
	sim    *Sim
	ID     int
	mu     sync.Mutex
	dir    [2]*pipe // dir[0]: client -> server, dir[1]: server -> client
	addr   [2]Addr
	closed [2]bool
	// Capture keeps every byte ever delivered per direction (for wire-level oracles).
	Capture [2][]byte
	// Sent keeps every byte ever written per direction.
	Sent [2][]byte
	// NoParkWrite disables the park at the entry of server-side writes.
	NoParkWrite bool
	// Stalled directions are not offered for delivery.
	Stalled [2]bool
}

// End is one endpoint of a Conn and implements net.Conn.
type End struct {
	c    *Conn
	side int
}

func (c *Conn) Client() *End { return &End{c, 0} }
func (c *Conn) Server() *End { return &End{c, 1} }

// actions offers deliveries on both directions.
func (c *Conn) actions() []Action {
	var acts []Action
	c.mu.Lock()
	defer c.mu.Unlock()
	for d := 0; d < 2; d++ {
		p := c.dir[d]
		if c.Stalled[d] {
			continue
		}
		d := d
		arrow := ">"
		if d == 1 {
			arrow = "<"
		}
		if len(p.flight) > 0 {
			acts = append(acts, Action{
				Key:     fmt.Sprintf("2|%03d|%d|data", c.ID, d),
				Desc:    "dlv c" + strconv.Itoa(c.ID) + arrow,
				WantArg: true,
				Do:      func(arg int) { c.deliver(d, arg) },
			})
		} else if p.fin && !p.eof {
			acts = append(acts, Action{
				Key:  fmt.Sprintf("2|%03d|%d|fin", c.ID, d),
				Desc: "fin c" + strconv.Itoa(c.ID) + arrow,
				Do:   func(int) { c.deliverFin(d) },
			})
		}
	}
	return acts
}

func (c *Conn) deliver(d, arg int) {
	c.mu.Lock()
	p := c.dir[d]
	n := SegmentSize(arg, len(p.flight))
	seg := p.flight[:n]
	p.flight = p.flight[n:]
	p.recv = append(p.recv, seg...)
	c.Capture[d] = append(c.Capture[d], seg...)
	if n > 0 && len(p.flight) > 0 {
		c.sim.Stats["net.split"]++
	}
	ws := p.waiters
	p.waiters = nil
	c.mu.Unlock()
	c.sim.Logf("  seg c%d d%d n=%d", c.ID, d, n)
	wake(ws)
}

func (c *Conn) deliverFin(d int) {
	c.mu.Lock()
	p := c.dir[d]
	p.eof = true
	ws := p.waiters
	p.waiters = nil
	c.mu.Unlock()
	wake(ws)
}

func wake(ws []chan struct{}) {
	for _, w := range ws {
		close(w)
	}
}

// InFlight returns the undelivered bytes of a direction (scheduler goroutine only).
func (c *Conn) InFlight(d int) []byte {
	c.mu.Lock()
	defer c.mu.Unlock()
	return append([]byte(nil), c.dir[d].flight...)
}

// SetInFlight replaces the undelivered bytes of a direction (on-path adversary).
func (c *Conn) SetInFlight(d int, b []byte) {
	c.mu.Lock()
	c.dir[d].flight = append([]byte(nil), b...)
	c.mu.Unlock()
}

// Pending reports whether a direction has undelivered bytes or an undelivered FIN.
func (c *Conn) Pending(d int) bool {
	c.mu.Lock()
	defer c.mu.Unlock()
	p := c.dir[d]
	return len(p.flight) > 0 || (p.fin && !p.eof)
}

// Unread returns the number of delivered but unread bytes of a direction.
func (c *Conn) Unread(d int) int {
	c.mu.Lock()
	defer c.mu.Unlock()
	return len(c.dir[d].recv)
}

// ReaderWaiting reports whether a goroutine is blocked reading at the given side.
func (c *Conn) ReaderWaiting(side int) bool {
	c.mu.Lock()
	defer c.mu.Unlock()
	return len(c.dir[1-side].waiters) > 0
}

// Delivered returns how many bytes of a direction have been delivered so far.
func (c *Conn) Delivered(d int) int {
	c.mu.Lock()
	defer c.mu.Unlock()
	return len(c.Capture[d])
}

// Closed reports whether the given side has closed.
func (c *Conn) Closed(side int) bool {
	c.mu.Lock()
	defer c.mu.Unlock()
	return c.closed[side]
}

// Reset aborts the connection from the given side: in-flight data is dropped and
// both ends see an error.
func (c *Conn) Reset() {
	c.mu.Lock()
	var ws []chan struct{}
	for d := 0; d < 2; d++ {
		p := c.dir[d]
		p.flight = nil
		p.rst = true
		ws = append(ws, p.waiters...)
		p.waiters = nil
	}
	c.mu.Unlock()
	wake(ws)
}

func (e *End) inDir() int  { return 1 - e.side } // direction this end reads from
func (e *End) outDir() int { return e.side }     // direction this end writes to

func (e *End) Read(b []byte) (int, error) {
	c := e.c
	for {
		c.mu.Lock()
		p := c.dir[e.inDir()]
		if c.closed[e.side] {
			c.mu.Unlock()
			return 0, net.ErrClosed
		}
		if p.rst {
			c.mu.Unlock()
			return 0, errReset
		}
		if p.hasDL && !p.deadline.After(time.Now()) {
			c.mu.Unlock()
			return 0, ErrTimeout
		}
		if len(p.recv) > 0 {
			n := copy(b, p.recv)
			p.recv = p.recv[n:]
			c.mu.Unlock()
			return n, nil
		}
		if p.eof {
			c.mu.Unlock()
			return 0, io.EOF
		}
		if len(b) == 0 {
			c.mu.Unlock()
			return 0, nil
		}
		w := make(chan struct{})
		p.waiters = append(p.waiters, w)
		c.mu.Unlock()
		<-w
	}
}

func (e *End) Write(b []byte) (int, error) {
	c := e.c
	if e.side == 1 && !c.NoParkWrite {
		if s := c.sim; s != nil && !s.InTeardown() {
			s.Park("sockwrite", s.ActorName(c.ID), c.ID, " n="+strconv.Itoa(len(b)), nil)
		}
	}
	c.mu.Lock()
	defer c.mu.Unlock()
	if c.closed[e.side] {
		return 0, net.ErrClosed
	}
	p := c.dir[e.outDir()]
	if p.rst {
		return 0, errReset
	}
	if c.closed[1-e.side] {
		// peer closed: bytes are accepted and dropped (a real stack would RST later)
		return len(b), nil
	}
	p.flight = append(p.flight, b...)
	p.total += len(b)
	c.Sent[e.outDir()] = append(c.Sent[e.outDir()], b...)
	return len(b), nil
}

func (e *End) Close() error {
	c := e.c
	c.mu.Lock()
	if c.closed[e.side] {
		c.mu.Unlock()
		return nil
	}
	c.closed[e.side] = true
	c.dir[e.outDir()].fin = true
	// wake our own blocked reader
	p := c.dir[e.inDir()]
	ws := p.waiters
	p.waiters = nil
	c.mu.Unlock()
	wake(ws)
	if c.sim != nil {
		c.sim.Logf("  close c%d side%d", c.ID, e.side)
	}
	return nil
}

func (e *End) LocalAddr() net.Addr  { return e.c.addr[e.side] }
func (e *End) RemoteAddr() net.Addr { return e.c.addr[1-e.side] }

func (e *End) SetDeadline(t time.Time) error {
	e.SetReadDeadline(t)
	return nil
}

func (e *End) SetReadDeadline(t time.Time) error {
	c := e.c
	c.mu.Lock()
	p := c.dir[e.inDir()]
	p.deadline = t
	p.hasDL = !t.IsZero()
	var ws []chan struct{}
	if p.hasDL && !t.After(time.Now()) {
		ws = p.waiters
		p.waiters = nil
	}
	c.mu.Unlock()
	wake(ws)
	return nil
}

func (e *End) SetWriteDeadline(t time.Time) error { return nil }

// Conn returns the connection this end belongs to.
func (e *End) Conn() *Conn { return e.c }

// Listener is the simulated listening socket.
type Listener struct {
	sim    *Sim
	mu     sync.Mutex
	queue  []*Conn
	waiter chan struct{}
	closed bool
	addr   Addr
}

// NewListener creates the listener handed to hc through the VerifListen hook.
func (s *Sim) NewListener(port string) *Listener {
	if port == "" || port == ":" {
		port = ":51826"
	}
	l := &Listener{sim: s, addr: Addr("10.0.0.1" + port)}
	s.mu.Lock()
	s.Listener = l
	s.mu.Unlock()
	return l
}

func (l *Listener) Accept() (net.Conn, error) {
	for {
		l.mu.Lock()
		if l.closed {
			l.mu.Unlock()
			return nil, net.ErrClosed
		}
		if len(l.queue) > 0 {
			c := l.queue[0]
			l.queue = l.queue[1:]
			l.mu.Unlock()
			return c.Server(), nil
		}
		w := make(chan struct{})
		l.waiter = w
		l.mu.Unlock()
		<-w
	}
}

func (l *Listener) Close() error {
	l.mu.Lock()
	l.closed = true
	w := l.waiter
	l.waiter = nil
	l.mu.Unlock()
	if w != nil {
		close(w)
	}
	return nil
}

func (l *Listener) Addr() net.Addr { return l.addr }

// Closed reports whether the listener was closed.
func (l *Listener) Closed() bool {
	l.mu.Lock()
	defer l.mu.Unlock()
	return l.closed
}

// Dial creates a connection from clientAddr ("" = fresh address) and queues it on
// the listener; the accept loop wakes up and hands it to net/http.
func (s *Sim) Dial(l *Listener, clientAddr string) *Conn {
	return s.DialTo(l, clientAddr, "")
}

// DialTo is Dial to another address of a multi-homed accessory: the accepted connection's local
// address is accAddr (the listener listens on all interfaces).
func (s *Sim) DialTo(l *Listener, clientAddr, accAddr string) *Conn {
	if l == nil {
		panic("sim: Dial before the accessory listens")
	}
	s.mu.Lock()
	id := len(s.Conns)
	if clientAddr == "" {
		s.nextPort++
		clientAddr = "10.0.0.2:" + strconv.Itoa(s.nextPort)
	}
	c := &Conn{sim: s, ID: id}
	c.dir[0], c.dir[1] = &pipe{}, &pipe{}
	c.addr[0] = Addr(clientAddr)
	c.addr[1] = l.addr
	if accAddr != "" {
		c.addr[1] = Addr(accAddr)
	}
	s.Conns = append(s.Conns, c)
	s.logLocked("  dial c" + strconv.Itoa(id) + " " + clientAddr)
	s.mu.Unlock()
	if s.teardown.Load() {
		// an actor that wakes up in teardown and dials: nobody will accept or close this connection
		// any more, so it is born closed and every read or write on it fails at once
		c.Client().Close()
		c.Server().Close()
		c.mu.Lock()
		c.dir[0].eof, c.dir[1].eof = true, true
		c.mu.Unlock()
		return c
	}
	l.mu.Lock()
	l.queue = append(l.queue, c)
	w := l.waiter
	l.waiter = nil
	l.mu.Unlock()
	if w != nil {
		close(w)
	}
	return c
}

// NewPair creates a connection that is not attached to a listener (direct harnesses).
func (s *Sim) NewPair(clientAddr, serverAddr string) *Conn {
	s.mu.Lock()
	id := len(s.Conns)
	c := &Conn{sim: s, ID: id}
	c.dir[0], c.dir[1] = &pipe{}, &pipe{}
	c.addr[0] = Addr(clientAddr)
	c.addr[1] = Addr(serverAddr)
	s.Conns = append(s.Conns, c)
	s.mu.Unlock()
	return c
}

// ConnByAddr finds the newest connection with the given client address.
func (s *Sim) ConnByAddr(addr string) *Conn {
	s.mu.Lock()
	defer s.mu.Unlock()
	for i := len(s.Conns) - 1; i >= 0; i-- {
		if string(s.Conns[i].addr[0]) == addr {
			return s.Conns[i]
		}
	}
	return nil
}

// CloseAll closes every endpoint (teardown).
func (s *Sim) CloseAll() {
	s.mu.Lock()
	conns := append([]*Conn(nil), s.Conns...)
	s.mu.Unlock()
	for _, c := range conns {
		c.Client().Close()
		c.Server().Close()
		c.mu.Lock()
		var ws []chan struct{}
		for d := 0; d < 2; d++ {
			c.dir[d].eof = true
			ws = append(ws, c.dir[d].waiters...)
			c.dir[d].waiters = nil
		}
		c.mu.Unlock()
		wake(ws)
	}
}
