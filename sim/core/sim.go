// Package core is the deterministic simulator: a token scheduler that owns every
// goroutine hand-over, an in-memory network whose delivery it decides, and the
// stubs hc needs (listener, mDNS responder). One run is a pure function of the
// schedule vector and the scripts of the actors.
package core

import (
	"bytes"
	"fmt"
	"hash/fnv"
	"os"
	"runtime"
	"sort"
	"strconv"
	"strings"
	"sync"
	"sync/atomic"
	"testing/synctest"
	"time"
)

// FineGrainedBuild is true when the binary was built against an instrumented copy of hc.
var FineGrainedBuild bool

// Progress is bumped at every scheduler step; a real-time watchdog outside the
// bubble reads it.
var Progress atomic.Uint64

// cur is the simulation the process-wide hooks forward to.
var cur atomic.Pointer[Sim]

// Current returns the running simulation (nil outside a run).
func Current() *Sim { return cur.Load() }

// Parked is a goroutine waiting for the scheduler's token.
type Parked struct {
	Kind    string // read, write, close, setcrypt, lock, sockwrite, step
	Actor   string // logical goroutine name
	Conn    int    // connection id or -1
	Enabled func() bool
	ch      chan struct{}
	seq     uint64
	Info    string
	// StallUntil > 0: a stalled goroutine (fault kind "stall"): it is not released before that
	// step unless nothing else can run
	StallUntil int
}

func (p *Parked) key() string {
	class := "1"
	if p.Kind == "step" {
		class = "3"
	}
	return fmt.Sprintf("%s|%s|%03d|%s|%012d", class, p.Actor, p.Conn+1, p.Kind, p.seq)
}

// Action is one thing the scheduler may do next.
type Action struct {
	Key     string
	Desc    string
	WantArg bool
	Do      func(arg int)
}

// Sim is one simulated run.
type Sim struct {
	mu       sync.Mutex
	parked   []*Parked
	Conns    []*Conn
	seq      uint64
	sched    []uint16
	pos      int
	teardown atomic.Bool
	inline   atomic.Bool
	actors   map[int64]string

	Listener *Listener

	Steps    int
	MaxSteps int
	// BudgetExhausted is set when Run stopped because of MaxSteps (the run is inconclusive).
	BudgetExhausted bool
	Log             []string
	KeepLog         bool
	h               uint64
	Stats           map[string]int
	// Panics of actor goroutines (application code calling into hc) outside teardown.
	Panics []string

	// Extra returns harness-defined actions (faults, time advance).
	Extra func() []Action
	// OnQuiescent is evaluated at every quiescent point; a non-nil error stops the run.
	OnQuiescent func() error
	// OnPark is told about every hook park (used for recording write payloads).
	OnPark func(p *Parked, payload []byte)
	// Policy biases a choice; nil means vector only.
	StepHook func(desc string)

	nextPort int

	// fine-grained mode: yield points inside hc are park points for a per-run subset of the sites
	Fine       bool
	SiteSalt   uint64
	SiteMod    uint64
	StallMod   uint64 // one in StallMod parks stalls the goroutine for a while (0: never)
	SlowMod    uint64 // > 0: one in SlowMod logical actors is slow in this run: it only runs when nobody else can
	schedGoid  int64
	spawnCount map[string]int
	tickets    []string
	goConn     map[int64]int
}

// debugEnabledSets (VERIF_LOG_ENABLED=1) logs the whole enabled set before every step.
var debugEnabledSets = os.Getenv("VERIF_LOG_ENABLED") != ""

// NewSim creates a simulation driven by the schedule vector.
func NewSim(sched []uint16) *Sim {
	s := &Sim{
		sched:    sched,
		actors:   map[int64]string{},
		MaxSteps: 20000,
		Stats:    map[string]int{},
		KeepLog:  true,
		nextPort: 40000,
	}
	h := fnv.New64a()
	s.h = h.Sum64()
	return s
}

// Activate installs s as the target of the process-wide hooks. It must be called on the
// scheduler goroutine.
func (s *Sim) Activate() {
	s.schedGoid = goid()
	cur.Store(s)
}

// yieldPoint is reached from the yield points inserted into hc (fine-grained mode only).
func (s *Sim) yieldPoint(site int) {
	if !s.Fine || s.inline.Load() {
		return
	}
	mod := s.SiteMod
	if mod == 0 {
		mod = 8
	}
	if (uint64(site)*2654435761+s.SiteSalt)%mod != 0 {
		return // this run uses another subset of the sites
	}
	id := goid()
	if id == s.schedGoid {
		return
	}
	s.mu.Lock()
	conn, ok := s.goConn[id]
	name := s.actors[id]
	s.mu.Unlock()
	if name == "transport" {
		return // Transport.Start only sets the server up; the harness waits for it without scheduling
	}
	if !ok {
		conn = -1
	}
	actor := s.ActorName(conn)
	if conn < 0 && (actor == "anon" || strings.HasPrefix(actor, "srv:") || strings.HasPrefix(actor, "bg:")) {
		// a goroutine the simulator cannot tell from its siblings yet (a serve goroutine before its
		// first read): two of them parked in the same step would have no stable order
		s.Count("fine.yield_skipped_unidentified_goroutine")
		return
	}
	if why := unsafeToPark(); why != "" {
		s.Count("fine.yield_skipped_lock_possibly_held")
		if DebugYieldSkips != nil {
			DebugYieldSkips(why)
		}
		return
	}
	s.Count("fine.yield_parks")
	if s.StallMod > 0 {
		// a slow goroutine: decided by the site, the step and the run's salt only, so that it replays
		h := (uint64(site)*0x9E3779B97F4A7C15 ^ uint64(s.Steps)*0xC2B2AE3D27D4EB4F ^ s.SiteSalt) * 0xD6E8FEB86659FD93
		h ^= h >> 29
		if h%s.StallMod == 0 {
			s.Count("fault.stalled_goroutine")
			s.parkStalled("pt", actor, conn, " s"+strconv.Itoa(site)+" stalled", s.Steps+8+int((h>>16)%150))
			return
		}
	}
	s.Park("pt", actor, conn, " s"+strconv.Itoa(site), nil)
}

// LockUsers is set by the fine-grained build: functions of the tree under test that take a
// lock the simulator has no probe for.
var LockUsers map[string]bool

// DebugYieldSkips, when set, is told which frame made a yield point decline to park.
var DebugYieldSkips func(frame string)

// Frames of other packages under which parking is known to be safe (no lock held while they
// call into hc). Every other frame outside hc and the harness makes the yield point decline:
// a goroutine parked while it holds a mutex the simulator cannot see would hang the run.
var parkSafePrefixes = []string{
	"github.com/brutella/hc", "verif/sim/", "runtime.", "testing.", "testing/synctest.", "pgregory.net/rapid",
	"bufio.", "io.", "io/ioutil.", "net/textproto.", "encoding/json.", "bytes.", "fmt.", "strings.", "reflect.", "sort.",
	"encoding/binary.", "encoding/hex.", "strconv.", "main.",
}

var parkSafeFuncs = map[string]bool{
	"net/http.(*conn).serve": true, "net/http.serverHandler.ServeHTTP": true, "net/http.(*ServeMux).ServeHTTP": true,
	"net/http.HandlerFunc.ServeHTTP": true, "net/http.(*conn).setState": true, "net/http.(*conn).readRequest": true,
	"net/http.readRequest": true, "net/http.(*connReader).Read": true, "net/http.(*connReader).backgroundRead": true,
	"net/http.checkConnErrorWriter.Write": true, "net/http.(*response).write": true, "net/http.(*response).Write": true,
	"net/http.(*response).WriteHeader": true, "net/http.(*response).WriteString": true, "net/http.(*chunkWriter).Write": true,
	"net/http.(*chunkWriter).writeHeader": true, "net/http.(*chunkWriter).flush": true, "net/http.(*chunkWriter).close": true,
	"net/http.(*response).finishRequest": true, "net/http.(*response).Flush": true, "net/http.(*response).FlushError": true,
	"net/http.(*conn).close": true, "net/http.(*conn).finalFlush": true, "net/http.(*Server).Serve": true,
	"net/http.(*Request).ParseForm": true, "net/http.(*Request).FormValue": true,
	"net/http/internal.(*chunkedWriter).Write": true, "net/http/internal.(*chunkedWriter).Close": true,
	"net/http/internal.(*FlushAfterChunkWriter).Write": true,
}

func baseFunc(fn string) string {
	// closures and method values: pkg.(*T).M.func1.2, pkg.F.gowrap1, pkg.(*T).M-fm
	for {
		i := strings.LastIndexByte(fn, '.')
		if i < 0 {
			break
		}
		suf := fn[i+1:]
		if strings.HasPrefix(suf, "func") || strings.HasPrefix(suf, "gowrap") || strings.HasPrefix(suf, "deferwrap") || isDigits(suf) {
			fn = fn[:i]
			continue
		}
		break
	}
	return strings.TrimSuffix(fn, "-fm")
}

func isDigits(s string) bool {
	if s == "" {
		return false
	}
	for _, c := range s {
		if c < '0' || c > '9' {
			return false
		}
	}
	return true
}

// unsafeToPark walks the stack of the calling goroutine and names the first frame under which a
// lock unknown to the simulator may be held ("" when there is none).
func unsafeToPark() string {
	var pcs [96]uintptr
	n := runtime.Callers(3, pcs[:])
	frames := runtime.CallersFrames(pcs[:n])
	for {
		fr, more := frames.Next()
		fn := baseFunc(fr.Function)
		if fn != "" {
			if LockUsers[fn] {
				return fn
			}
			if !parkSafeFuncs[fn] {
				ok := false
				for _, p := range parkSafePrefixes {
					if strings.HasPrefix(fn, p) {
						ok = true
						break
					}
				}
				if !ok {
					return fn
				}
			}
		}
		if !more {
			return ""
		}
	}
}

// spawnTicket is called by a goroutine of the tree under test right before it starts another one
// (instrumented build). It names the child after its parent and returns a ticket; 0 means the
// child runs free (the parent is the transport set-up, the scheduler, or unidentified).
func (s *Sim) spawnTicket(site int) int {
	id := goid()
	if id == s.schedGoid {
		return 0
	}
	conn := s.GoroutineConn()
	parent := s.ActorName(conn)
	if parent == "transport" || parent == "anon" || parent == "accept" || parent == "stop" || (conn < 0 && (strings.HasPrefix(parent, "srv:") || strings.HasPrefix(parent, "bg:"))) {
		return 0
	}
	s.mu.Lock()
	defer s.mu.Unlock()
	if s.spawnCount == nil {
		s.spawnCount = map[string]int{}
	}
	key := parent + ">go" + strconv.Itoa(site)
	s.spawnCount[key]++
	s.tickets = append(s.tickets, key+"#"+strconv.Itoa(s.spawnCount[key]))
	s.Stats["probe.goroutine_started_by_hc_parked_at_birth"]++
	return len(s.tickets)
}

// enterSpawned is the first thing a goroutine with a ticket does: it takes its name and parks.
func (s *Sim) enterSpawned(ticket int) {
	s.mu.Lock()
	if ticket < 1 || ticket > len(s.tickets) {
		s.mu.Unlock()
		return
	}
	name := s.tickets[ticket-1]
	s.actors[goid()] = name
	s.mu.Unlock()
	s.Park("go", name, -1, "", nil)
}

// GoroutineConn returns the connection the calling goroutine was last seen working on (-1: none).
func (s *Sim) GoroutineConn() int {
	id := goid()
	s.mu.Lock()
	defer s.mu.Unlock()
	if c, ok := s.goConn[id]; ok {
		return c
	}
	return -1
}

// NoteGoroutineConn remembers which connection the calling goroutine works on.
func (s *Sim) NoteGoroutineConn(conn int) {
	id := goid()
	s.mu.Lock()
	if s.goConn == nil {
		s.goConn = map[int64]int{}
	}
	s.goConn[id] = conn
	s.mu.Unlock()
}

// Deactivate removes s; every later hook call passes through.
func (s *Sim) Deactivate() { cur.CompareAndSwap(s, nil) }

// Teardown switches the simulation to pass-through mode and releases every parked goroutine.
func (s *Sim) Teardown() {
	s.teardown.Store(true)
	s.mu.Lock()
	ps := s.parked
	s.parked = nil
	s.mu.Unlock()
	for _, p := range ps {
		close(p.ch)
	}
}

// LeakedLockWaiters counts the goroutines that wait at an automatic lock probe for a mutex that
// is still held. Asked when a run is over (everything quiescent): if the holder is not one of
// the parked goroutines, nobody will ever release that mutex.
func (s *Sim) LeakedLockWaiters() int {
	s.mu.Lock()
	ps := append([]*Parked(nil), s.parked...)
	s.mu.Unlock()
	n := 0
	for _, p := range ps {
		if p.Kind == "autolock" && p.Enabled != nil && !p.Enabled() {
			n++
		}
	}
	return n
}

// InTeardown reports whether parks pass through.
func (s *Sim) InTeardown() bool { return s.teardown.Load() || s.inline.Load() }

// Inline runs f on the scheduler goroutine with every park passing through (used when the
// scheduler itself calls into hc while all other goroutines are quiescent).
func (s *Sim) Inline(f func()) {
	s.inline.Store(true)
	defer s.inline.Store(false)
	f()
	// whatever f woke runs to its next durable block before parks count again: a goroutine racing
	// towards a park while the flag flips would park or pass through at random
	synctest.Wait()
}

// ReleaseYields lets every goroutine go on that is parked at a yield point or an automatic lock
// probe. It is called inside Inline before the transport is stopped: Stop waits for goroutines
// (the accept loop) which may be parked there.
func (s *Sim) ReleaseYields() {
	s.mu.Lock()
	var keep, rel []*Parked
	for _, p := range s.parked {
		if p.Kind == "pt" || p.Kind == "autolock" {
			rel = append(rel, p)
		} else {
			keep = append(keep, p)
		}
	}
	s.parked = keep
	s.mu.Unlock()
	for _, p := range rel {
		close(p.ch)
	}
}

// Count bumps a fault / probe counter.
func (s *Sim) Count(name string) {
	s.mu.Lock()
	s.Stats[name]++
	s.mu.Unlock()
}

// Logf appends a line to the event log.
func (s *Sim) Logf(format string, a ...interface{}) {
	line := fmt.Sprintf(format, a...)
	s.mu.Lock()
	s.logLocked(line)
	s.mu.Unlock()
}

func (s *Sim) logLocked(line string) {
	if s.teardown.Load() || s.inline.Load() {
		return // free-running phases are not part of the replayable history
	}
	h := fnv.New64a()
	var b [8]byte
	for i := 0; i < 8; i++ {
		b[i] = byte(s.h >> (8 * i))
	}
	h.Write(b[:])
	h.Write([]byte(line))
	s.h = h.Sum64()
	if s.KeepLog {
		s.Log = append(s.Log, line)
	}
}

// Hash is the running hash of the event log.
func (s *Sim) Hash() uint64 {
	s.mu.Lock()
	defer s.mu.Unlock()
	return s.h
}

// Seq returns a fresh global event sequence number.
func (s *Sim) Seq() uint64 {
	s.mu.Lock()
	defer s.mu.Unlock()
	s.seq++
	return s.seq
}

func goid() int64 {
	var buf [64]byte
	n := runtime.Stack(buf[:], false)
	// "goroutine 123 [running]:"
	b := buf[10:n]
	i := bytes.IndexByte(b, ' ')
	if i < 0 {
		return -1
	}
	id, _ := strconv.ParseInt(string(b[:i]), 10, 64)
	return id
}

// Go starts a named actor goroutine inside the bubble. The actor parks before its first
// instruction, so that nothing it does races with actors started at the same time.
func (s *Sim) Go(name string, f func()) {
	s.spawn(name, f, true)
}

// GoNow starts a named goroutine that runs at once (infrastructure such as Transport.Start).
func (s *Sim) GoNow(name string, f func()) {
	s.spawn(name, f, false)
}

func (s *Sim) spawn(name string, f func(), park bool) {
	go func() {
		id := goid()
		s.mu.Lock()
		s.actors[id] = name
		s.mu.Unlock()
		defer func() {
			r := recover()
			s.mu.Lock()
			delete(s.actors, id)
			if r != nil && !s.teardown.Load() {
				buf := make([]byte, 4096)
				n := runtime.Stack(buf, false)
				s.Panics = append(s.Panics, fmt.Sprintf("actor %s panicked: %v\n%s", name, r, buf[:n]))
			}
			s.mu.Unlock()
		}()
		if park {
			s.Park("step", name, -1, " start", nil)
		}
		f()
	}()
}

// ActorName returns the logical name of the calling goroutine. Goroutines that
// net/http spawned are classified by their stack.
func (s *Sim) ActorName(conn int) string {
	id := goid()
	s.mu.Lock()
	name, ok := s.actors[id]
	s.mu.Unlock()
	if ok {
		return name
	}
	buf := make([]byte, 8192)
	n := runtime.Stack(buf, false)
	st := buf[:n]
	switch {
	case bytes.Contains(st, []byte("backgroundRead")):
		return "bg:" + strconv.Itoa(conn)
	case bytes.Contains(st, []byte("net/http.(*conn).serve")):
		return "srv:" + strconv.Itoa(conn)
	case bytes.Contains(st, []byte("ListenAndServe.func1")):
		return "stop"
	case bytes.Contains(st, []byte("sendKeepAlive")):
		return "ka"
	case bytes.Contains(st, []byte("net/http.(*Server).Serve(")):
		return "accept"
	}
	return "anon"
}

// Park blocks the calling goroutine until the scheduler releases it.
func (s *Sim) Park(kind, actor string, conn int, info string, enabled func() bool) {
	if s.teardown.Load() || s.inline.Load() {
		return
	}
	p := &Parked{Kind: kind, Actor: actor, Conn: conn, Enabled: enabled, ch: make(chan struct{}), Info: info}
	s.mu.Lock()
	if s.teardown.Load() {
		s.mu.Unlock()
		return
	}
	s.seq++
	p.seq = s.seq
	if s.StallMod > 0 && kind != "pt" && kind != "autolock" {
		// fault kind "slow goroutine": decided by the parking goroutine's identity, the step and the run's salt only
		// (who parks, where, at which step: the park sequence number depends on the order in which
		// concurrently running goroutines arrive and would not replay)
		f := fnv.New64a()
		f.Write([]byte(actor))
		f.Write([]byte(kind))
		f.Write([]byte(info))
		h := (f.Sum64() ^ uint64(conn+1)*0x9E3779B97F4A7C15 ^ uint64(s.Steps)*0xC2B2AE3D27D4EB4F ^ s.SiteSalt) * 0xD6E8FEB86659FD93
		h ^= h >> 29
		if h%s.StallMod == 0 {
			p.StallUntil = s.Steps + 8 + int((h>>16)%150)
			p.Info += " stalled"
			s.Stats["fault.stalled_goroutine"]++
		}
	}
	if kind != "autolock" && p.StallUntil == 0 && s.slowActor(actor) {
		p.StallUntil = stallForever
		p.Info += " slow"
		s.Stats["fault.slow_actor_park"]++
	}
	s.parked = append(s.parked, p)
	s.mu.Unlock()
	<-p.ch
}

// slowActor reports whether the logical actor is the slow one of this run (fault kind "slow
// node": it is scheduled only when nothing else can run).
func (s *Sim) slowActor(actor string) bool {
	if s.SlowMod == 0 || actor == "" {
		return false
	}
	f := fnv.New64a()
	f.Write([]byte(actor))
	h := (f.Sum64() ^ s.SiteSalt*0x9E3779B97F4A7C15) * 0xD6E8FEB86659FD93
	h ^= h >> 31
	return h%s.SlowMod == 0
}

const stallForever = int(^uint(0) >> 2)

// parkStalled parks like Park; the scheduler does not release the goroutine before step until,
// unless nothing else can run.
func (s *Sim) parkStalled(kind, actor string, conn int, info string, until int) {
	if s.teardown.Load() || s.inline.Load() {
		return
	}
	p := &Parked{Kind: kind, Actor: actor, Conn: conn, ch: make(chan struct{}), Info: info, StallUntil: until}
	s.mu.Lock()
	if s.teardown.Load() {
		s.mu.Unlock()
		return
	}
	s.seq++
	p.seq = s.seq
	s.parked = append(s.parked, p)
	s.mu.Unlock()
	<-p.ch
}

// ParkedCount returns how many goroutines wait with the given kind on conn (-1: any).
func (s *Sim) ParkedCount(kind string, conn int) int {
	s.mu.Lock()
	defer s.mu.Unlock()
	n := 0
	for _, p := range s.parked {
		if p.Kind == kind && (conn < 0 || p.Conn == conn) {
			n++
		}
	}
	return n
}

// ParkedSnapshot returns a copy of the parked list.
func (s *Sim) ParkedSnapshot() []Parked {
	s.mu.Lock()
	defer s.mu.Unlock()
	out := make([]Parked, 0, len(s.parked))
	for _, p := range s.parked {
		out = append(out, *p)
	}
	return out
}

func (s *Sim) next() int {
	s.mu.Lock()
	defer s.mu.Unlock()
	// the vector is used cyclically: a short vector is a periodic schedule, the empty
	// vector the canonical polite one
	if len(s.sched) > 0 {
		v := int(s.sched[s.pos%len(s.sched)])
		if lap := s.pos / len(s.sched); lap > 0 && v != 0 {
			v += lap * 7 // later laps differ, so a short vector is not a pathological loop
		}
		s.pos++
		return v
	}
	return 0
}

// Enabled builds the sorted enabled set.
func (s *Sim) enabled() []Action {
	var acts []Action
	s.mu.Lock()
	ps := append([]*Parked(nil), s.parked...)
	conns := append([]*Conn(nil), s.Conns...)
	s.mu.Unlock()
	var stalled []*Parked
	release := func(p *Parked) Action {
		return Action{
			Key:  p.key(),
			Desc: "rel " + p.Actor + " " + p.Kind + " c" + strconv.Itoa(p.Conn) + p.Info,
			Do: func(int) {
				s.mu.Lock()
				for i, q := range s.parked {
					if q == p {
						s.parked = append(s.parked[:i], s.parked[i+1:]...)
						break
					}
				}
				s.mu.Unlock()
				close(p.ch)
			},
		}
	}
	for _, p := range ps {
		if p.Kind == "autolock" {
			continue // released by releaseLockWaiters, never a scheduler choice
		}
		if p.Enabled != nil && !p.Enabled() {
			continue
		}
		if p.StallUntil > s.Steps {
			stalled = append(stalled, p)
			continue
		}
		acts = append(acts, release(p))
	}
	for _, c := range conns {
		acts = append(acts, c.actions()...)
	}
	if s.Extra != nil {
		acts = append(acts, s.Extra()...)
	}
	if len(acts) == 0 && len(stalled) > 0 {
		// everything else waits for a stalled goroutine: the one that was to wake first goes on
		first := stalled[0]
		for _, p := range stalled[1:] {
			if p.StallUntil < first.StallUntil || (p.StallUntil == first.StallUntil && p.key() < first.key()) {
				first = p
			}
		}
		acts = append(acts, release(first))
	}
	sort.SliceStable(acts, func(i, j int) bool { return acts[i].Key < acts[j].Key })
	return acts
}

// Run drives the simulation until no action is enabled, the step budget is
// exhausted, stop() returns true or an invariant fails.
func (s *Sim) Run(stop func() bool) error {
	for {
		synctest.Wait()
		s.releaseLockWaiters()
		Progress.Add(1)
		if s.OnQuiescent != nil {
			if err := s.OnQuiescent(); err != nil {
				return err
			}
		}
		if stop != nil && stop() {
			return nil
		}
		if s.Steps >= s.MaxSteps {
			s.Logf("step budget exhausted")
			s.BudgetExhausted = true
			return nil
		}
		acts := s.enabled()
		if len(acts) == 0 {
			return nil
		}
		a := acts[s.next()%len(acts)]
		arg := 0
		if a.WantArg {
			arg = s.next()
		}
		s.Steps++
		if debugEnabledSets {
			var ks []string
			for _, x := range acts {
				ks = append(ks, x.Desc)
			}
			s.Logf("   enabled: %s", strings.Join(ks, " | "))
		}
		s.Logf("%d %s %d/%d", s.Steps, a.Desc, arg, len(acts))
		if s.StepHook != nil {
			s.StepHook(a.Desc)
		}
		a.Do(arg)
	}
}

// releaseLockWaiters lets the goroutines go on that wait at an automatic lock probe for a mutex
// which is free by now. Whether a goroutine had to wait there depends on how concurrently
// running goroutines happened to overlap, so these waits are no scheduler steps and are not
// logged: the waiters go on one at a time, each until everything is quiescent again.
func (s *Sim) releaseLockWaiters() {
	for {
		s.mu.Lock()
		var pick *Parked
		for _, p := range s.parked {
			if p.Kind == "autolock" && p.Enabled() && (pick == nil || p.key() < pick.key()) {
				pick = p
			}
		}
		if pick != nil {
			for i, q := range s.parked {
				if q == pick {
					s.parked = append(s.parked[:i], s.parked[i+1:]...)
					break
				}
			}
		}
		s.mu.Unlock()
		if pick == nil {
			return
		}
		close(pick.ch)
		synctest.Wait()
	}
}

// Sleep advances the simulated clock by d (scheduler goroutine only).
func (s *Sim) Sleep(d time.Duration) {
	time.Sleep(d)
}

// SegmentSize maps a schedule entry to a number of bytes to deliver out of avail.
func SegmentSize(v, avail int) int {
	if avail <= 1 {
		return avail
	}
	switch v % 8 {
	case 0, 1, 2, 3:
		return avail
	case 4:
		return 1
	case 5:
		return 2
	case 6:
		return 1 + (v/8)%avail
	default:
		n := 1 + (v/8)%48
		if n > avail {
			n = avail
		}
		return n
	}
}
