package props

import (
	"bytes"
	"encoding/json"
	"fmt"
	"strings"
	"testing"

	"github.com/brutella/hc"
	"github.com/brutella/hc/accessory"
	"pgregory.net/rapid"

	"verif/sim/core"
	"verif/sim/ref"
)

// C05, system layer: an on-path adversary alters the encrypted byte stream between a
// verified controller and the accessory while it is in flight on the simulated network.
// Whatever it does, the accessory acts only on an unmodified prefix (at frame granularity)
// of what the controller sent, and the connection does not survive the first altered frame.

type C05SysScenario struct {
	Seed  uint64   `json:"seed"`
	Reqs  []int    `json:"reqs"`  // PUT requests; value n pads the request to roughly n bytes
	After int      `json:"after"` // the alteration is applied to the in-flight bytes of request number After
	Kind  string   `json:"kind"`
	A     int      `json:"a"`
	BB    int      `json:"b"`
	Sched []uint16 `json:"sched"`
}

var c05SysKinds = []string{"replay-session", "replay-session", "flip", "flip", "lenbit", "tagbit", "trunc", "dropframe", "dupframe", "swapframes", "replay-earlier", "reflect", "junk"}

func genC05Sys(rt *rapid.T) *C05SysScenario {
	sc := &C05SysScenario{Seed: rapid.Uint64().Draw(rt, "seed")}
	n := rapid.IntRange(1, 5).Draw(rt, "nreq")
	for i := 0; i < n; i++ {
		sc.Reqs = append(sc.Reqs, rapid.SampledFrom([]int{0, 0, 300, 900, 1100, 2500}).Draw(rt, "pad"))
	}
	sc.After = rapid.IntRange(0, n-1).Draw(rt, "after")
	sc.Kind = rapid.SampledFrom(c05SysKinds).Draw(rt, "kind")
	sc.A = rapid.IntRange(0, 1<<20).Draw(rt, "a")
	sc.BB = rapid.IntRange(0, 1<<20).Draw(rt, "b")
	sc.Sched = genSched(rt, 200)
	return sc
}

func runC05Sys(t *testing.T, sc *C05SysScenario) *Outcome {
	return bubbleOutcome(t, sc.Seed, sc.Sched, func(w *World) *Outcome {
		o := &Outcome{Stats: map[string]int{}}
		s := w.Sim
		kp := w.Keypair()
		w.SeedPairing("ctl", kp)
		ta := newTestAccessory("C05")
		if err := w.NewTransport(hc.Config{Pin: "00102003"}, []*accessory.Accessory{ta.Accessory}); err != nil {
			o.Harness = err.Error()
			return o
		}
		w.Start()
		var callbacks []int
		ta.Bri.OnValueRemoteUpdate(func(v int) { callbacks = append(callbacks, v) })
		var fail, failSig string
		violate := func(sig, f string, a ...interface{}) {
			if fail == "" {
				failSig, fail = sig, fmt.Sprintf(f, a...)
			}
		}
		var conn *core.Conn
		done := false
		sentUpTo := -1 // index of the last request handed to the socket
		altered := false
		arm := false
		var firstWire []byte
		sentBefore := 0
		tamperedReq := -1
		s.Go("ctl", func() {
			defer func() { done = true }()
			cl, c, err := w.verified("ctl", "ctl", kp)
			if err != nil {
				violate("verify", "controller cannot verify: %v", err)
				return
			}
			conn = c
			for i, pad := range sc.Reqs {
				// every request writes a unique brightness; values 1..n in order
				ents := []map[string]interface{}{{"aid": 1, "iid": ta.Bri.ID, "value": i + 1}}
				for len(mustJSON(ents)) < pad {
					ents = append(ents, map[string]interface{}{"aid": 1, "iid": ta.On.ID, "ev": false})
				}
				body, _ := json.Marshal(map[string]interface{}{"characteristics": ents})
				w.Step("ctl", fmt.Sprintf("PUT %d", i))
				if s.InTeardown() {
					return
				}
				before := len(c.Sent[0])
				sentBefore = before
				if err := cl.Send(ref.Request("PUT", "/characteristics", ref.CTypeJSON, body)); err != nil {
					return
				}
				if i == 0 {
					firstWire = append([]byte(nil), c.Sent[0][before:]...)
				}
				sentUpTo = i
				if i == sc.After {
					arm = true // the adversary acts while these bytes are in flight
				}
				if _, err := cl.Recv(); err != nil {
					return // the connection died: expected after an alteration
				}
			}
		})
		s.Extra = func() []core.Action {
			if !arm || altered || conn == nil || sc.Kind == "replay-session" {
				return nil
			}
			fl := conn.InFlight(0)
			if len(fl) == 0 || conn.Delivered(0) != sentBefore {
				return nil // only whole requests are altered, so that frame boundaries are known
			}
			return []core.Action{{Key: "0|tamper", Desc: "tamper " + sc.Kind, Do: func(int) {
				altered = true
				tamperedReq = sentUpTo
				frames := splitFrames(fl)
				a := sc.A % len(frames)
				o.Stats["fault.sys."+sc.Kind]++
				switch sc.Kind {
				case "flip":
					pos := sc.BB % (len(fl) * 8)
					fl[pos/8] ^= 1 << (pos % 8)
				case "lenbit":
					frames[a][sc.BB%2] ^= 1 << (sc.BB / 2 % 8)
					fl = joinFrames(frames)
				case "tagbit":
					f := frames[a]
					f[len(f)-1-sc.BB%16] ^= 1 << (sc.BB / 16 % 8)
					fl = joinFrames(frames)
				case "trunc":
					fl = fl[:sc.BB%len(fl)]
				case "dropframe":
					fl = joinFrames(append(frames[:a:a], frames[a+1:]...))
					if len(fl) == 0 {
						fl = []byte{0}
					}
				case "dupframe":
					fl = joinFrames(append(frames[:a+1:a+1], frames[a:]...))
				case "swapframes":
					if len(frames) > 1 {
						b := (a + 1) % len(frames)
						frames[a], frames[b] = frames[b], frames[a]
						fl = joinFrames(frames)
					} else {
						fl[len(fl)-1] ^= 1
					}
				case "replay-earlier":
					// the controller's first request again, in place of / before the current one
					fl = append(append([]byte(nil), firstWire...), fl...)
					if tamperedReq == 0 {
						fl = append(fl[len(firstWire):], firstWire...)
						fl = append(append([]byte(nil), firstWire...), fl...)
					}
				case "reflect":
					// the accessory's own frames (its last response) sent back to it
					back := conn.Capture[1]
					if len(back) > 40 {
						back = back[len(back)-40:]
					}
					fl = append(append([]byte(nil), back...), fl...)
				case "junk":
					fl = append([]byte{0x05, 0x00, 1, 2, 3, 4, 5, 6, 7, 8, 9, 10, 11, 12, 13, 14, 15, 16, 17, 18, 19, 20, 21}, fl...)
				}
				conn.SetInFlight(0, fl)
			}}}
		}
		if err := s.Run(func() bool { return done || fail != "" }); err != nil {
			o.Harness = err.Error()
			return o
		}
		// let the accessory finish whatever is still in flight or parked (it may only now get to the altered frame)
		s.Extra = nil
		if err := s.Run(nil); err != nil {
			o.Harness = err.Error()
			return o
		}
		if sc.Kind == "replay-session" && fail == "" && conn != nil && done {
			// cross-session replay: everything the controller ever sent (verify start, finish, encrypted
			// requests) is sent again, byte for byte, on a new connection
			before := len(callbacks)
			recorded := append([]byte(nil), conn.Sent[0]...)
			rdone := false
			s.Go("replayer", func() {
				defer func() { rdone = true }()
				c2 := s.Dial(s.Listener, "")
				rc := &ref.Client{Conn: c2.Client(), Rand: w.Rand}
				// the two plaintext requests of the handshake are replayed one at a time (as the
				// controller sent them), then all the recorded ciphertext
				rest := recorded
				for i := 0; i < 2; i++ {
					n := httpRequestLen(rest)
					if n <= 0 {
						return
					}
					w.Step("replayer", "replay handshake request")
					if rc.SendRaw(rest[:n]) != nil {
						return
					}
					rest = rest[n:]
					if _, err := rc.Recv(); err != nil {
						return
					}
				}
				w.Step("replayer", "replay the recorded ciphertext")
				rc.SendRaw(rest)
				buf := make([]byte, 4096)
				for {
					if _, err := c2.Client().Read(buf); err != nil {
						return
					}
				}
			})
			s.Run(func() bool { return rdone })
			s.Run(nil)
			o.Stats["fault.sys.replay-session"]++
			altered = true
			if len(callbacks) != before {
				violate("replayed-session-executed", "the recorded session of the controller, replayed on a new connection, was executed again: %d writes took effect a second time", len(callbacks)-before)
			}
			if fail != "" {
				o.Violation = "C05:sys-" + failSig
				o.Sig = "sys-" + failSig
				o.Detail = fail
			}
			o.Nontrivial = true
			o.Shape = fmt.Sprintf("sys|%v|replay-session|%d|%x", sc.Reqs, len(callbacks), s.Hash())
			return o
		}
		// oracle: the callbacks are 1, 2, ..., j with j <= the number of requests that arrived unaltered
		limit := len(sc.Reqs)
		if altered {
			limit = tamperedReq // requests before the altered one
			if sc.Kind == "dupframe" || (sc.Kind == "replay-earlier" && tamperedReq == 0) {
				// the intact request is still in front of the inserted frames
				limit = tamperedReq + 1
			}
		}
		for i, v := range callbacks {
			if v != i+1 {
				violate("state-from-altered-stream", "the accessory applied brightness writes %v: not a prefix of what the controller sent (1..%d)", callbacks, len(sc.Reqs))
				break
			}
		}
		if fail == "" && len(callbacks) > limit {
			violate("acted-beyond-alteration", "the accessory applied %d writes although the stream was altered (%s) in request %d; at most %d may take effect", len(callbacks), sc.Kind, tamperedReq, limit)
		}
		if fail == "" && altered && conn != nil && !conn.Closed(1) && done {
			// the controller's Recv failed or the run ended; the accessory must have dropped the connection
			// unless the alteration was absorbed as a truncation at a frame boundary (waiting for more)
			if sc.Kind != "trunc" && sc.Kind != "dropframe" {
				violate("connection-survives-alteration", "the accessory keeps the connection open after an altered frame (%s)", sc.Kind)
			}
		}
		if pl := w.PanicLines(); len(pl) > 0 && fail == "" {
			violate("panic", "%s", pl[0])
		}
		_ = sentUpTo
		if fail != "" {
			o.Violation = "C05:sys-" + failSig
			o.Sig = "sys-" + failSig
			o.Detail = fail
		}
		o.Nontrivial = altered
		o.Shape = fmt.Sprintf("sys|%v|%d|%s|%d|%x", sc.Reqs, sc.After, sc.Kind, len(callbacks), s.Hash())
		return o
	})
}

// httpRequestLen returns the length of the first HTTP request (head and Content-Length body) in b, 0 if incomplete.
func httpRequestLen(b []byte) int {
	i := bytes.Index(b, []byte("\r\n\r\n"))
	if i < 0 {
		return 0
	}
	n := 0
	for _, l := range strings.Split(string(b[:i]), "\r\n") {
		if strings.HasPrefix(strings.ToLower(l), "content-length:") {
			fmt.Sscanf(strings.TrimSpace(l[len("content-length:"):]), "%d", &n)
		}
	}
	if len(b) < i+4+n {
		return 0
	}
	return i + 4 + n
}

func joinFrames(fs [][]byte) []byte {
	var out []byte
	for _, f := range fs {
		out = append(out, f...)
	}
	return out
}
