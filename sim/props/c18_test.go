package props

import (
	"bytes"
	"encoding/hex"
	"fmt"
	mrand "math/rand/v2"
	"os"
	"sort"
	"strings"
	"testing"

	"github.com/brutella/hc/db"
	"github.com/brutella/hc/util"
	"pgregory.net/rapid"
)

// C18: storage and pairing database behave like a persistent map. The simulated fault is
// the restart: every object is dropped and a new store is opened on the same directory.

type C18Op struct {
	Kind string `json:"kind"` // set get del list reopen save load delent ents
	Key  int    `json:"key"`
	Len  int    `json:"len"`
	Suf  int    `json:"suf"`
}

type C18Scenario struct {
	Seed  uint64   `json:"seed"`
	Keys  []string `json:"keys"`
	Names []string `json:"names_hex"` // entity names, hex of arbitrary bytes
	Ops   []C18Op  `json:"ops"`
}

var c18Kinds = []string{"set", "set", "get", "del", "list", "reopen", "save", "save", "load", "delent", "ents"}
var c18Suffixes = []string{"", ".entity", "x", ".x", "y"}

func genC18(rt *rapid.T) interface{} {
	sc := &C18Scenario{Seed: rapid.Uint64().Draw(rt, "seed")}
	nk := rapid.IntRange(1, 4).Draw(rt, "nk")
	seen := map[string]bool{}
	for len(sc.Keys) < nk {
		k := rapid.StringOfN(rapid.RuneFrom([]rune("abAB09._-xy")), 1, 12, 12).Draw(rt, "key")
		if k == "." || k == ".." || seen[k] || strings.HasSuffix(k, ".entity") {
			continue
		}
		seen[k] = true
		sc.Keys = append(sc.Keys, k)
	}
	nn := rapid.IntRange(1, 3).Draw(rt, "nn")
	seenN := map[string]bool{}
	for len(sc.Names) < nn {
		var b []byte
		switch rapid.IntRange(0, 4).Draw(rt, "nkind") {
		case 0:
			b = []byte(rapid.StringN(0, 20, 100).Draw(rt, "name"))
		case 1:
			b = rapid.SliceOfN(rapid.Byte(), 0, 100).Draw(rt, "nameb")
		case 2:
			// long names (file-name length limits are where implementations start to shorten)
			b = rapid.SliceOfN(rapid.Byte(), 50, 100).Draw(rt, "namelong")
		default:
			b = []byte(rapid.StringOfN(rapid.RuneFrom([]rune("abcDEF012-:")), 1, 36, 36).Draw(rt, "namea"))
		}
		h := hex.EncodeToString(b)
		if seenN[h] {
			continue
		}
		seenN[h] = true
		sc.Names = append(sc.Names, h)
	}
	n := rapid.IntRange(1, tierScale(14)).Draw(rt, "nops")
	for i := 0; i < n; i++ {
		op := C18Op{Kind: rapid.SampledFrom(c18Kinds).Draw(rt, "kind"), Key: rapid.IntRange(0, 3).Draw(rt, "k"), Suf: rapid.IntRange(0, len(c18Suffixes)-1).Draw(rt, "suf")}
		switch rapid.IntRange(0, 2).Draw(rt, "lk") {
		case 0:
			op.Len = rapid.IntRange(0, 8).Draw(rt, "len")
		case 1:
			op.Len = rapid.IntRange(0, 200).Draw(rt, "len")
		default:
			op.Len = rapid.IntRange(0, 4096).Draw(rt, "len")
		}
		sc.Ops = append(sc.Ops, op)
	}
	return sc
}

type entModel struct {
	pub, priv []byte
}

func runC18(t *testing.T, sci interface{}) *Outcome {
	sc := sci.(*C18Scenario)
	o := &Outcome{Stats: map[string]int{}}
	dir, err := os.MkdirTemp("", "hc18")
	if err != nil {
		o.Harness = err.Error()
		return o
	}
	defer os.RemoveAll(dir)
	rng := mrand.NewChaCha8(seedBytes(sc.Seed, 18))
	open := func() (util.Storage, db.Database, error) {
		st, err := util.NewFileStorage(dir)
		if err != nil {
			return nil, nil, err
		}
		return st, db.NewDatabaseWithStorage(st), nil
	}
	st, d, err := open()
	if err != nil {
		o.Harness = err.Error()
		return o
	}
	model := map[string][]byte{}  // raw storage key -> value (entity files are checked through the entity model)
	ents := map[string]entModel{} // name -> entity
	fail := func(i int, sig, f string, a ...interface{}) *Outcome {
		o.Violation = "C18:" + sig
		o.Sig = sig
		o.Detail = fmt.Sprintf("op %d %+v: ", i, sc.Ops[i]) + fmt.Sprintf(f, a...)
		return o
	}
	shape := ""
	overwrites, shorter := 0, 0
	for i, op := range sc.Ops {
		key := sc.Keys[op.Key%len(sc.Keys)]
		nameHex := sc.Names[op.Key%len(sc.Names)]
		nb, _ := hex.DecodeString(nameHex)
		name := string(nb)
		o.Stats["op."+op.Kind]++
		shape += op.Kind[:2]
		switch op.Kind {
		case "set":
			v := make([]byte, op.Len)
			rng.Read(v)
			if old, ok := model[key]; ok {
				overwrites++
				if len(v) < len(old) {
					shorter++
					o.Stats["probe.overwrite_shorter"]++
				}
			}
			if err := st.Set(key, v); err != nil {
				return fail(i, "set-error", "Set(%q, %d bytes): %v", key, len(v), err)
			}
			model[key] = v
		case "get":
			got, err := st.Get(key)
			want, ok := model[key]
			if !ok {
				if err == nil {
					return fail(i, "get-missing-no-error", "Get(%q) of a key that was never set / was deleted returned %d bytes and no error", key, len(got))
				}
				continue
			}
			if err != nil {
				return fail(i, "get-error", "Get(%q): %v", key, err)
			}
			if !bytes.Equal(got, want) {
				sig := "get-mismatch"
				if len(got) > len(want) && bytes.Equal(got[:len(want)], want) {
					sig = "get-stale-tail"
				}
				return fail(i, sig, "Get(%q) returned %d bytes, last value set has %d bytes", key, len(got), len(want))
			}
		case "del":
			st.Delete(key)
			delete(model, key)
		case "list":
			suf := c18Suffixes[op.Suf]
			got, err := st.KeysWithSuffix(suf)
			if err != nil {
				return fail(i, "list-error", "KeysWithSuffix(%q): %v", suf, err)
			}
			var want []string
			for k := range model {
				if strings.HasSuffix(k, suf) {
					want = append(want, k)
				}
			}
			sort.Strings(want)
			// how the database names the keys of its entities is its own business: keys it may have
			// created (anything ending in .entity that was not set through this API) are not judged here,
			// its listing is judged through Entities()
			var g []string
			for _, k := range got {
				if _, mine := model[k]; !mine && strings.HasSuffix(k, ".entity") && len(ents) > 0 {
					continue
				}
				g = append(g, k)
			}
			sort.Strings(g)
			if strings.Join(g, "\x00") != strings.Join(want, "\x00") {
				return fail(i, "list-mismatch", "KeysWithSuffix(%q) = %q, live keys are %q", suf, g, want)
			}
		case "reopen":
			o.Stats["fault.restart"]++
			st, d, err = open()
			if err != nil {
				return fail(i, "reopen-error", "%v", err)
			}
		case "save":
			pub := make([]byte, 32)
			rng.Read(pub)
			var priv []byte
			if op.Len%3 == 0 {
				priv = make([]byte, 64)
				rng.Read(priv)
			}
			if err := d.SaveEntity(db.NewEntity(name, pub, priv)); err != nil {
				return fail(i, "save-error", "SaveEntity(%q): %v", name, err)
			}
			if _, ok := ents[name]; ok {
				o.Stats["probe.entity_overwrite"]++
			}
			ents[name] = entModel{pub, priv}
		case "load":
			e, err := d.EntityWithName(name)
			want, ok := ents[name]
			if !ok {
				if err == nil {
					return fail(i, "load-missing-no-error", "EntityWithName(%q) of an entity that is not stored returned no error", name)
				}
				continue
			}
			if err != nil {
				return fail(i, "load-error", "EntityWithName(%q): %v", name, err)
			}
			if e.Name != name {
				return fail(i, "entity-name-altered", "EntityWithName(%q) returned an entity named %q", name, e.Name)
			}
			if !bytes.Equal(e.PublicKey, want.pub) || !bytes.Equal(e.PrivateKey, want.priv) {
				return fail(i, "entity-keys-mismatch", "EntityWithName(%q) returned other keys than saved", name)
			}
		case "delent":
			d.DeleteEntity(db.NewEntity(name, nil, nil))
			delete(ents, name)
		case "ents":
			es, err := d.Entities()
			if err != nil {
				return fail(i, "entities-error", "Entities(): %v", err)
			}
			if len(es) != len(ents) {
				return fail(i, "entities-count", "Entities() returned %d entities, %d are stored", len(es), len(ents))
			}
			for _, e := range es {
				want, ok := ents[e.Name]
				if !ok {
					return fail(i, "entity-name-altered", "Entities() lists an entity named %q that was never saved under that name", e.Name)
				}
				if !bytes.Equal(e.PublicKey, want.pub) || !bytes.Equal(e.PrivateKey, want.priv) {
					return fail(i, "entity-keys-mismatch", "Entities(): entity %q has other keys than saved", e.Name)
				}
			}
		}
	}
	o.Nontrivial = overwrites > 0 || o.Stats["fault.restart"] > 0 || len(ents) > 0
	o.Shape = shape + fmt.Sprintf("|%d|%d|%d", overwrites, shorter, len(sc.Names))
	o.LogHash = uint64(len(shape))
	return o
}

func TestC18(t *testing.T) {
	drive(t, &PropDef{ID: "C18", Gen: genC18, Decode: decodeInto[C18Scenario], Run: runC18, Checks: 200})
}
