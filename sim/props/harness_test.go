package props

import (
	"bytes"
	"encoding/binary"
	"fmt"
	"log"
	mrand "math/rand/v2"
	"os"
	"runtime"
	"strings"
	"sync"
	"testing"
	"testing/cryptotest"
	"testing/synctest"
	"time"

	"github.com/brutella/hc"
	"github.com/brutella/hc/accessory"
	"github.com/brutella/hc/db"
	"github.com/brutella/hc/hap"
	hclog "github.com/brutella/hc/log"

	"verif/sim/core"
	"verif/sim/ref"
)

// Transport is the part of hc's unexported ipTransport the harness uses.
type Transport interface {
	Start()
	Stop() <-chan struct{}
	XHMURI() (string, error)
	VerifTxtRecords() map[string]string
	VerifContext() hap.Context
	VerifDatabase() db.Database
	VerifContainer() *accessory.Container
}

// lockedBuf is a goroutine-safe log sink.
type lockedBuf struct {
	mu sync.Mutex
	b  bytes.Buffer
}

func (l *lockedBuf) Write(p []byte) (int, error) {
	l.mu.Lock()
	defer l.mu.Unlock()
	return l.b.Write(p)
}

func (l *lockedBuf) String() string {
	l.mu.Lock()
	defer l.mu.Unlock()
	return l.b.String()
}

// World is one simulated deployment: an accessory process, its disk, its network.
type World struct {
	T    *testing.T
	Sim  *core.Sim
	Dir  string
	Rand *mrand.ChaCha8

	Tr      Transport
	Resp    *core.Responder
	stopped bool
	started bool

	ServerLog *lockedBuf // net/http error log (panics) + hc Info log

	AccID   string
	AccLTPK []byte

	clients int
}

var runCounter int

// seedBytes expands a 64-bit seed.
func seedBytes(seed uint64, lane byte) [32]byte {
	var s [32]byte
	binary.LittleEndian.PutUint64(s[:8], seed)
	s[8] = lane
	s[9] = 0x5a
	return s
}

// InBubble runs f inside a synctest bubble with deterministic entropy and a fresh world.
// f runs on the scheduler goroutine. The returned panic value is non-nil if the bubble
// deadlocked or f panicked.
func InBubble(t *testing.T, seed uint64, sched []uint16, f func(w *World)) (pv interface{}) {
	cryptotest.SetGlobalRandom(t, seed)
	runCounter++
	if runCounter%40 == 0 {
		runtime.GC() // lets finalisers close the idle UDP sockets of discarded responders
	}
	dir, err := os.MkdirTemp("", "hcsim")
	if err != nil {
		t.Fatal(err)
	}
	defer os.RemoveAll(dir)
	sl := &lockedBuf{}
	log.SetOutput(sl)
	log.SetFlags(0)
	hclog.Info.SetOutput(sl)
	hclog.Info.SetFlags(0)
	// The bubble runs on a goroutine of its own: a tree under test that leaks a mutex on some
	// path leaves goroutines blocked on it forever, synctest.Test then never returns, and the
	// verdict the run already reached would be lost to the watchdog. Such a bubble is abandoned
	// (its goroutines leak, its fake clock stands still because one of them is not durably blocked).
	done := make(chan interface{}, 4)
	var simRef *core.Sim
	go func() {
		defer func() {
			r := recover()
			done <- r
		}()
		synctest.Test(t, func(bt *testing.T) {
			s := core.NewSim(sched)
			simRef = s
			s.SiteSalt = seed
			if (seed>>4)%2 == 1 {
				// half of the runs have slow goroutines: some parks last many steps
				s.StallMod = 4 + (seed>>5)%16
			}
			if (seed>>9)%4 == 1 {
				// a quarter of the runs have slow actors: about one in three logical actors (a connection's
				// serve goroutine, a controller, the application) only runs when nobody else can
				s.SlowMod = 3
			}
			if core.FineGrainedBuild && os.Getenv("VERIF_FINE") != "" {
				s.Fine = true
				s.SiteMod = 4 + seed%9
				s.MaxSteps = 80000
			}
			w := &World{T: bt, Sim: s, Dir: dir, ServerLog: sl}
			cs := seedBytes(seed, 1)
			w.Rand = mrand.NewChaCha8(cs)
			s.Activate()
			defer func() {
				// teardown: everything passes through, every goroutine must exit
				if s.LeakedLockWaiters() > 0 {
					// somebody waits for a mutex that is held although nothing can run: unless its holder
					// is one of the parked goroutines, quiescence will never come. Do not wait for it here.
					s.Teardown()
					s.CloseAll()
					go w.StopTransport()
					if s.Listener != nil {
						s.Listener.Close()
					}
					done <- bubbleSuspect{}
					return
				}
				s.Teardown()
				s.CloseAll()
				w.StopTransport()
				if s.Listener != nil {
					s.Listener.Close()
				}
				synctest.Wait()
				s.Deactivate()
			}()
			f(w)
		})
	}()
	v := <-done
	if _, ok := v.(bubbleSuspect); ok {
		select {
		case v = <-done: // the holder was a parked goroutine: the bubble ended after all
			simRef.Deactivate()
		case <-time.After(15 * time.Second): // real time: this goroutine is outside the bubble
			simRef.Deactivate()
			return "bubble abandoned: goroutines of the tree under test wait for a mutex that nobody releases"
		}
	}
	return v
}

type bubbleSuspect struct{}

// Accessories builds n accessories; the first is the bridge when n > 1.
func BuildAccessories(n int, tag string) []*accessory.Accessory {
	var out []*accessory.Accessory
	for i := 0; i < n; i++ {
		info := accessory.Info{Name: fmt.Sprintf("Acc%s%d", tag, i), SerialNumber: fmt.Sprintf("SN%d", i), Manufacturer: "verif", Model: "sim"}
		switch i % 3 {
		case 0:
			out = append(out, accessory.NewSwitch(info).Accessory)
		case 1:
			out = append(out, accessory.NewColoredLightbulb(info).Accessory)
		default:
			out = append(out, accessory.NewThermostat(info, 20, 10, 30, 0.5).Accessory)
		}
	}
	return out
}

// NewTransport creates (but does not start) a transport on the world's directory.
func (w *World) NewTransport(cfg hc.Config, accs []*accessory.Accessory) error {
	cfg.StoragePath = w.Dir
	t, err := hc.NewIPTransport(cfg, accs[0], accs[1:]...)
	if err != nil {
		return err
	}
	w.Tr = t
	w.Resp = core.LastResponder()
	w.stopped = false
	w.started = false
	w.AccID = t.VerifTxtRecords()["id"]
	if e, err := t.VerifDatabase().EntityWithName(w.AccID); err == nil {
		w.AccLTPK = e.PublicKey
	}
	return nil
}

// Start runs Transport.Start on its own goroutine and waits until it listens.
func (w *World) Start() {
	tr := w.Tr
	w.started = true
	w.Sim.GoNow("transport", func() { tr.Start() })
	synctest.Wait()
}

// StopTransport stops the running transport and waits for Start to return.
func (w *World) StopTransport() {
	if w.Tr == nil || w.stopped || !w.started {
		return
	}
	w.stopped = true
	ch := w.Tr.Stop()
	<-ch
}

// SeedPairing stores a controller pairing directly on disk (as an earlier run would have).
func (w *World) SeedPairing(id string, kp ref.Keypair) {
	d, err := db.NewDatabase(w.Dir)
	if err != nil {
		w.T.Fatal(err)
	}
	if err := d.SaveEntity(db.NewEntity(id, kp.Pub, nil)); err != nil {
		w.T.Fatal(err)
	}
}

// Keypair draws a long-term key pair from the world's second entropy stream.
func (w *World) Keypair() ref.Keypair {
	var seed [32]byte
	w.Rand.Read(seed[:])
	return ref.NewKeypair(seed)
}

// NewClient dials the accessory and returns a reference controller on the connection.
// Must be called from the goroutine that will use the client (or the scheduler).
func (w *World) NewClient(name string) (*ref.Client, *core.Conn) {
	c := w.Sim.Dial(w.Sim.Listener, "")
	cl := &ref.Client{Conn: c.Client(), Rand: w.Rand}
	cl.Yield = func(what string) {
		w.Sim.Park("step", name, c.ID, " "+what, nil)
	}
	return cl, c
}

// Step parks the calling actor goroutine until scheduled.
func (w *World) Step(actor, what string) {
	w.Sim.Park("step", actor, -1, " "+what, nil)
}

// StepWhen parks the calling actor until cond holds and the scheduler picks it.
func (w *World) StepWhen(actor, what string, cond func() bool) {
	w.Sim.Park("step", actor, -1, " "+what, cond)
}

// PanicLines returns the lines of the server log that report a handler panic.
func (w *World) PanicLines() []string {
	var out []string
	for _, p := range w.Sim.Panics {
		out = append(out, strings.SplitN(p, "\n", 2)[0])
	}
	for _, l := range strings.Split(w.ServerLog.String(), "\n") {
		if strings.Contains(l, "panic serving") || strings.Contains(l, "panic:") {
			out = append(out, l)
		}
	}
	return out
}

var _ = time.Second
