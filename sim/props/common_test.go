package props

import (
	"runtime"
	"encoding/json"
	"fmt"
	"os"
	"strings"
	"testing"
	"time"

	"pgregory.net/rapid"
)

var epoch = time.Date(2000, 1, 1, 0, 0, 0, 0, time.UTC)

// tierScale widens generator bounds in the thorough tier.
func tierScale(n int) int {
	if os.Getenv("VERIF_TIER") == "thorough" {
		return n * 2
	}
	return n
}

func genSched(rt *rapid.T, max int) []uint16 {
	return rapid.SliceOfN(rapid.Uint16(), 0, max).Draw(rt, "sched")
}

var trivialPins = map[string]bool{"12345678": true, "87654321": true, "00000000": true, "11111111": true, "22222222": true, "33333333": true, "44444444": true, "55555555": true, "66666666": true, "77777777": true, "88888888": true, "99999999": true}

func genPin(rt *rapid.T, label string) string {
	for {
		n := rapid.IntRange(0, 99999999).Draw(rt, label)
		p := fmt.Sprintf("%08d", n)
		if !trivialPins[p] {
			return p
		}
	}
}

// fmtPin is the XXX-XX-XXX form a controller feeds to SRP (HAP specification 5.6.1).
func fmtPin(p string) string { return p[:3] + "-" + p[3:5] + "-" + p[5:] }

func genCtlID(rt *rapid.T, label string) string {
	switch rapid.IntRange(0, 3).Draw(rt, label+"kind") {
	case 0:
		// HAP style 36-character identifier
		hex := rapid.StringOfN(rapid.RuneFrom([]rune("0123456789ABCDEF")), 32, 32, 32).Draw(rt, label)
		return hex[:8] + "-" + hex[8:12] + "-" + hex[12:16] + "-" + hex[16:20] + "-" + hex[20:]
	case 1:
		return rapid.StringOfN(rapid.RuneFrom([]rune("abcXYZ019-_. :/é✓𝄞")), 1, 16, 64).Draw(rt, label)
	default:
		s := rapid.StringN(1, 20, 64).Draw(rt, label)
		s = strings.ToValidUTF8(s, "?")
		if s == "" {
			s = "x"
		}
		return s
	}
}

// finish fills the run-level fields of an outcome from the world.
func finish(o *Outcome, w *World) *Outcome {
	o.LogHash = w.Sim.Hash()
	o.Steps = w.Sim.Steps
	o.SimTimeS = time.Since(epoch).Seconds()
	if o.Stats == nil {
		o.Stats = map[string]int{}
	}
	for k, v := range w.Sim.Stats {
		o.Stats[k] += v
	}
	o.Log = w.Sim.Log
	if w.Sim.BudgetExhausted {
		// a run that hit the step budget decides nothing
		o.Inconclusive = "step budget exhausted"
		o.Violation, o.Sig, o.Detail = "", "", ""
		o.Nontrivial = false
	}
	return o
}

func decodeInto[T any](b []byte) (interface{}, error) {
	var v T
	if err := json.Unmarshal(b, &v); err != nil {
		return nil, err
	}
	return &v, nil
}

// bubbleOutcome runs body in a bubble and converts bubble-level trouble into a harness outcome.
func bubbleOutcome(t *testing.T, seed uint64, sched []uint16, body func(w *World) *Outcome) *Outcome {
	var o *Outcome
	pv := InBubble(t, seed, sched, func(w *World) {
		o = body(w)
		if o != nil {
			finish(o, w)
		}
	})
	if pv != nil {
		if o != nil && o.Violation != "" {
			return o
		}
		if os.Getenv("VERIF_DUMP_ON_BUBBLE_PANIC") != "" {
			buf := make([]byte, 1<<20)
			n := runtime.Stack(buf, true)
			fmt.Fprintf(os.Stderr, "bubble panic: %v\n%s\n", pv, buf[:n])
			os.Exit(3)
		}
		return &Outcome{Harness: fmt.Sprintf("bubble panic: %v", pv), LogHash: 0}
	}
	if o == nil {
		o = &Outcome{Harness: "no outcome"}
	}
	return o
}
