package props

import (
	"bytes"
	"fmt"
	"io"
	mrand "math/rand/v2"
	"testing"

	hccrypto "github.com/brutella/hc/crypto"
	"pgregory.net/rapid"

	"verif/sim/ref"
)

// C06: secure framing round-trips every payload in the specified wire format.
// The simulated component is the io.Reader handed to Encrypt/Decrypt.

// chunkReader is a simulated source: it decides how many bytes each Read returns.
type chunkReader struct {
	// during is called once, at read number duringAt: the source "blocks" there and another
	// task uses the same session in the other direction
	during   func()
	duringAt int
	data     []byte
	mode     int // 0 full, 1 one byte, 2 halves, 3 seeded sizes, 4 full with EOF on the last data
	rng      *mrand.Rand
	first    bool
	reads    int
}

func newChunkReader(data []byte, mode int, seed uint64) *chunkReader {
	return &chunkReader{data: data, mode: mode, rng: mrand.New(mrand.NewPCG(seed, 77)), first: true}
}

func (c *chunkReader) Read(p []byte) (int, error) {
	c.reads++
	if c.during != nil && c.reads == c.duringAt {
		f := c.during
		c.during = nil
		f()
	}
	if len(c.data) == 0 {
		return 0, io.EOF
	}
	if len(p) == 0 {
		return 0, nil
	}
	n := len(c.data)
	switch c.mode {
	case 1:
		n = 1
	case 2:
		if c.first {
			n = (len(c.data) + 1) / 2
		}
	case 3:
		n = 1 + c.rng.IntN(min(len(c.data), 1500))
	}
	c.first = false
	if n > len(p) {
		n = len(p)
	}
	copy(p, c.data[:n])
	c.data = c.data[n:]
	if len(c.data) == 0 && (c.mode == 4 || (c.mode == 3 && c.rng.IntN(2) == 0)) {
		return n, io.EOF
	}
	return n, nil
}

type C06Msg struct {
	Len    int `json:"len"`
	Enc    int `json:"enc_mode"` // chunk mode of the source given to Encrypt
	Dec    int `json:"dec_mode"` // chunk mode of the source given to Decrypt
	Side   int `json:"side"`     // 0: accessory encrypts, 1: accessory decrypts
	Dup    int `json:"dup"`      // >0: while the source of this message is at its Dup-th read, the session is used in the other direction
	DupLen int `json:"dup_len"`
}

type C06Scenario struct {
	Seed uint64   `json:"seed"`
	Ctr  uint64   `json:"ctr"` // frame counter both directions start at (set through the tagged hook)
	Msgs []C06Msg `json:"msgs"`
}

var interestingCounters = []uint64{0, 0, 0, 1, 255, 256, 65535, 65536, 1<<32 - 2, 1<<32 - 1, 1 << 32, 1<<32 + 1, 1 << 40, 1<<63 - 1, 1 << 63, ^uint64(0) - 8}

func genC06(rt *rapid.T) interface{} {
	sc := &C06Scenario{Seed: rapid.Uint64().Draw(rt, "seed")}
	sc.Ctr = rapid.SampledFrom(interestingCounters).Draw(rt, "ctr")
	n := rapid.IntRange(1, 6).Draw(rt, "n")
	lens := []int{0, 1, 2, 15, 16, 17, 1023, 1024, 1025, 2047, 2048, 2049, 3072, 4096, 4097, 5000, 10240}
	for i := 0; i < n; i++ {
		l := 0
		switch rapid.IntRange(0, 2).Draw(rt, "lk") {
		case 0:
			l = rapid.SampledFrom(lens).Draw(rt, "len")
		case 1:
			l = rapid.IntRange(0, 4200).Draw(rt, "len")
		default:
			l = rapid.IntRange(0, 40000).Draw(rt, "len")
		}
		m := C06Msg{Len: l, Enc: rapid.IntRange(0, 4).Draw(rt, "em"), Dec: rapid.IntRange(0, 4).Draw(rt, "dm"), Side: rapid.IntRange(0, 1).Draw(rt, "side")}
		if rapid.IntRange(0, 3).Draw(rt, "dup") == 0 {
			m.Dup = rapid.IntRange(1, 6).Draw(rt, "dupat")
			m.DupLen = rapid.IntRange(1, 1500).Draw(rt, "duplen")
		}
		sc.Msgs = append(sc.Msgs, m)
	}
	return sc
}

func runC06(t *testing.T, sci interface{}) *Outcome {
	sc := sci.(*C06Scenario)
	o := &Outcome{Stats: map[string]int{}}
	rng := mrand.NewChaCha8(seedBytes(sc.Seed, 6))
	var shared [32]byte
	rng.Read(shared[:])
	acc, err := hccrypto.NewSecureSessionFromSharedKey(shared)
	if err != nil {
		o.Harness = err.Error()
		return o
	}
	a2c, c2a := ref.SessionKeys(shared)
	ctrA2C, ctrC2A := sc.Ctr, sc.Ctr
	if sc.Ctr != 0 {
		if !hccrypto.VerifSetCounters(acc, sc.Ctr, sc.Ctr) {
			o.Harness = "VerifSetCounters: not a secure session"
			return o
		}
		o.Stats["probe.high_counter"]++
	}
	fail := func(sig, f string, a ...interface{}) *Outcome {
		o.Violation = "C06:" + sig
		o.Sig = sig
		o.Detail = fmt.Sprintf(f, a...)
		return o
	}
	shape := ""
	for i, m := range sc.Msgs {
		payload := make([]byte, m.Len)
		rng.Read(payload)
		o.Stats[fmt.Sprintf("chunkmode.%d", m.Enc)]++
		shape += fmt.Sprintf("%d/%d/%d/%d;", m.Len, m.Enc, m.Dec, m.Side)
		if m.Side == 0 {
			// accessory -> controller: hc encrypts from a simulated source, reference opens
			before := ctrA2C
			want := ref.FrameSeal(a2c, &ctrA2C, payload)
			src := newChunkReader(payload, m.Enc, sc.Seed+uint64(i))
			var dupFail string
			if m.Dup > 0 {
				// full duplex: while Encrypt waits for its source, a frame is decrypted on the same session
				src.duringAt = m.Dup
				src.during = func() {
					o.Stats["probe.full_duplex"]++
					other := make([]byte, m.DupLen)
					rng.Read(other)
					wire := ref.FrameSeal(c2a, &ctrC2A, other)
					dr, err := acc.Decrypt(bytes.NewReader(wire))
					if err != nil {
						dupFail = fmt.Sprintf("Decrypt of a reference message of %d bytes while Encrypt was reading its source: %v", m.DupLen, err)
						return
					}
					got, _ := io.ReadAll(dr)
					if !bytes.Equal(got, other) {
						dupFail = "Decrypt while Encrypt was reading its source returned other bytes"
					}
				}
			}
			r, err := acc.Encrypt(src)
			if dupFail != "" {
				return fail("full-duplex", "msg %d: %s", i, dupFail)
			}
			if err != nil {
				return fail("encrypt-error", "msg %d len %d: Encrypt: %v", i, m.Len, err)
			}
			got, _ := io.ReadAll(r)
			if m.Len == 0 && len(got) == 0 {
				ctrA2C = before // nothing sent for an empty payload is fine
				continue
			}
			if !bytes.Equal(got, want) {
				op := ref.FrameOpener{Key: a2c, Ctr: before}
				plain, frames, derr := op.FeedFrames(got)
				sig := "wire-format"
				if derr == nil && len(plain) < len(payload) && bytes.Equal(plain, payload[:len(plain)]) {
					sig = "encrypt-truncates-short-read-source"
				}
				return fail(sig, "msg %d len %d source mode %d: Encrypt output (%d bytes) differs from the reference framing (%d bytes); reference opener got %d frames / %d plaintext bytes, err=%v", i, m.Len, m.Enc, len(got), len(want), frames, len(plain), derr)
			}
		} else {
			// controller -> accessory: reference seals, hc decrypts from a simulated source
			wire := ref.FrameSeal(c2a, &ctrC2A, payload)
			src := newChunkReader(wire, m.Dec, sc.Seed+uint64(i))
			var dupFail string
			if m.Dup > 0 {
				// full duplex: while Decrypt waits for the rest of a frame, a message is encrypted on the same session
				src.duringAt = m.Dup
				src.during = func() {
					o.Stats["probe.full_duplex"]++
					other := make([]byte, m.DupLen)
					rng.Read(other)
					want := ref.FrameSeal(a2c, &ctrA2C, other)
					er, err := acc.Encrypt(bytes.NewReader(other))
					if err != nil {
						dupFail = fmt.Sprintf("Encrypt while Decrypt was reading a frame: %v", err)
						return
					}
					got, _ := io.ReadAll(er)
					if !bytes.Equal(got, want) {
						dupFail = fmt.Sprintf("Encrypt of %d bytes while Decrypt was in the middle of a frame differs from the reference framing", m.DupLen)
					}
				}
			}
			r, err := acc.Decrypt(src)
			if dupFail != "" {
				return fail("full-duplex", "msg %d: %s", i, dupFail)
			}
			if err != nil {
				return fail("decrypt-error", "msg %d len %d source mode %d: Decrypt of reference frames: %v", i, m.Len, m.Dec, err)
			}
			got, _ := io.ReadAll(r)
			if !bytes.Equal(got, payload) {
				return fail("decrypt-mismatch", "msg %d len %d source mode %d: Decrypt returned %d bytes, want %d", i, m.Len, m.Dec, len(got), len(payload))
			}
		}
	}
	o.Nontrivial = true
	o.Shape = shape
	o.LogHash = uint64(len(shape))
	return o
}

// fixedC06 sweeps every length 0..4097 for every source mode on both sides (sharded over workers).
func fixedC06(t *testing.T, emit func(sc interface{}, o *Outcome)) {
	w := int(envInt("VERIF_WORKER", 0))
	n := int(envInt("VERIF_WORKERS", 1))
	maxLen := int(envInt("VERIF_C06_SWEEP", 4097))
	for l := 0; l <= maxLen; l++ {
		if l%n != w {
			continue
		}
		for mode := 0; mode <= 4; mode++ {
			for side := 0; side <= 1; side++ {
				sc := &C06Scenario{Seed: uint64(l*16 + mode*2 + side), Ctr: interestingCounters[(l+mode)%len(interestingCounters)], Msgs: []C06Msg{{Len: l, Enc: mode, Dec: mode, Side: side}, {Len: 3, Enc: 0, Dec: 0, Side: side}}}
				emit(sc, runC06(t, sc))
			}
		}
	}
}

func TestC06(t *testing.T) {
	p := &PropDef{ID: "C06", Gen: genC06, Decode: decodeInto[C06Scenario], Run: runC06, Checks: 200}
	p.Fixed = fixedC06
	p.FixedAllWorkers = true
	drive(t, p)
}
