package props

import (
	"bytes"
	gocontext "context"
	"fmt"
	mrand "math/rand/v2"
	"sort"
	"strings"
	"testing"
	"time"

	"github.com/brutella/hc"
	"github.com/brutella/hc/accessory"
	"github.com/brutella/hc/characteristic"
	hccrypto "github.com/brutella/hc/crypto"
	"github.com/brutella/hc/hap"
	"github.com/brutella/hc/service"
	"pgregory.net/rapid"

	"verif/sim/core"
	"verif/sim/ref"
)

// C08: concurrent writers never corrupt the encrypted stream.

type C08Scenario struct {
	Direct    *C08Direct `json:"direct,omitempty"` // connection-level scenario (the other fields are unused then)
	Seed      uint64     `json:"seed"`
	NApp      int        `json:"n_app"`
	AppOps    int        `json:"app_ops"`
	Big       bool       `json:"big"`       // string values of several frames
	OtherOps  int        `json:"other_ops"` // PUTs by a second controller
	XReqs     int        `json:"x_reqs"`
	KeepAlive int        `json:"keep_alive"` // number of keep-alive periods to let pass
	Bridge    int        `json:"bridge"`     // further accessories behind the bridge (multi-write GET /accessories responses)
	Sched     []uint16   `json:"sched"`
}

// C08Direct drives one real hap.Connection with several writer goroutines calling the
// connection's own Write / WriteEvent concurrently (what any user of the type may do).
type C08Direct struct {
	Seed    uint64   `json:"seed"`
	Writers [][]int  `json:"writers"` // per writer: payload lengths; negative = through WriteEvent
	Sched   []uint16 `json:"sched"`
}

func genC08(rt *rapid.T) interface{} {
	if rapid.IntRange(0, 3).Draw(rt, "layer") == 0 {
		d := &C08Direct{Seed: rapid.Uint64().Draw(rt, "seed")}
		nw := rapid.IntRange(2, 4).Draw(rt, "nw")
		for i := 0; i < nw; i++ {
			var ls []int
			k := rapid.IntRange(1, 3).Draw(rt, "k")
			for j := 0; j < k; j++ {
				l := rapid.SampledFrom([]int{1, 30, 200, 1024, 1025, 2500}).Draw(rt, "len")
				if rapid.IntRange(0, 2).Draw(rt, "ev") == 0 {
					l = -l
				}
				ls = append(ls, l)
			}
			d.Writers = append(d.Writers, ls)
		}
		d.Sched = genSched(rt, 200)
		return &C08Scenario{Direct: d}
	}
	sc := &C08Scenario{Seed: rapid.Uint64().Draw(rt, "seed")}
	sc.NApp = rapid.IntRange(1, 4).Draw(rt, "napp")
	sc.AppOps = rapid.IntRange(1, tierScale(4)).Draw(rt, "appops")
	sc.Big = rapid.Bool().Draw(rt, "big")
	sc.OtherOps = rapid.IntRange(0, 3).Draw(rt, "other")
	sc.XReqs = rapid.IntRange(0, 3).Draw(rt, "xreqs")
	sc.KeepAlive = rapid.IntRange(0, 2).Draw(rt, "ka")
	if rapid.IntRange(0, 2).Draw(rt, "bridge") == 0 {
		sc.Bridge = rapid.IntRange(1, 14).Draw(rt, "nbridge")
	}
	sc.Sched = genSched(rt, 500)
	return sc
}

// testAccessory is an accessory with one characteristic of every value kind, all with events.
type testAccessory struct {
	*accessory.Accessory
	On    *characteristic.On
	Bri   *characteristic.Brightness
	Hue   *characteristic.Hue
	Name  *characteristic.ConfiguredName
	Chars []*characteristic.Characteristic
}

func newTestAccessory(name string) *testAccessory {
	a := &testAccessory{Accessory: accessory.New(accessory.Info{Name: name}, accessory.TypeLightbulb)}
	svc := service.New(service.TypeLightbulb)
	a.On = characteristic.NewOn()
	a.Bri = characteristic.NewBrightness()
	a.Hue = characteristic.NewHue()
	a.Name = characteristic.NewConfiguredName()
	for _, c := range []*characteristic.Characteristic{a.On.Characteristic, a.Bri.Characteristic, a.Hue.Characteristic, a.Name.Characteristic} {
		svc.AddCharacteristic(c)
		a.Chars = append(a.Chars, c)
	}
	a.AddService(svc)
	return a
}

// verified dials, runs pair-verify for a stored controller and returns the client.
func (w *World) verified(name, id string, kp ref.Keypair) (*ref.Client, *core.Conn, error) {
	cl, c := w.NewClient(name)
	ok, err := cl.PairVerify(id, kp, w.AccLTPK)
	if err != nil {
		return cl, c, err
	}
	if !ok {
		return cl, c, fmt.Errorf("pair-verify refused")
	}
	return cl, c, nil
}

// segmentWrites checks that stream is a concatenation of the payloads in writes (each used once).
func segmentWrites(stream []byte, writes [][]byte) (int, error) {
	used := make([]bool, len(writes))
	idx := make([]int, len(writes))
	for i := range idx {
		idx[i] = i
	}
	sort.SliceStable(idx, func(a, b int) bool { return len(writes[idx[a]]) > len(writes[idx[b]]) })
	pos, n := 0, 0
	for pos < len(stream) {
		found := false
		for _, i := range idx {
			if used[i] || len(writes[i]) == 0 {
				continue
			}
			if bytes.HasPrefix(stream[pos:], writes[i]) {
				used[i] = true
				pos += len(writes[i])
				n++
				found = true
				break
			}
		}
		if !found {
			return n, fmt.Errorf("at offset %d of the decrypted stream no written payload continues (%.60q)", pos, stream[pos:min(len(stream), pos+60)])
		}
	}
	return n, nil
}

func runC08Direct(t *testing.T, d *C08Direct) *Outcome {
	return bubbleOutcome(t, d.Seed, d.Sched, func(w *World) *Outcome {
		o := &Outcome{}
		s := w.Sim
		rng := mrand.NewChaCha8(seedBytes(d.Seed, 8))
		var shared [32]byte
		rng.Read(shared[:])
		a2c, _ := ref.SessionKeys(shared)
		ctx := hap.NewContextForSecuredDevice(nil)
		c := s.NewPair("10.0.0.2:40001", "10.0.0.1:51826")
		var hcon *hap.Connection
		var herr error
		s.Inline(func() {
			hcon = hap.NewConnection(c.Server(), ctx)
			var sess hccrypto.Cryptographer
			sess, herr = hccrypto.NewSecureSessionFromSharedKey(shared)
			if herr == nil {
				ctx.GetSessionForConnection(hcon).SetCryptographer(sess)
				// the first (plain) write activates the cryptographer, as the pair-verify response does
				hcon.Write([]byte("x"))
			}
		})
		if herr != nil {
			o.Harness = herr.Error()
			return o
		}
		plainPrefix := len(c.Sent[1])
		var payloads [][]byte
		done := 0
		for wi, ls := range d.Writers {
			name := fmt.Sprintf("writer%d", wi)
			ls := ls
			wi := wi
			s.Go(name, func() {
				defer func() { done++ }()
				for j, l := range ls {
					n := l
					if n < 0 {
						n = -n
					}
					p := []byte(fmt.Sprintf("<w%d.%d:", wi, j))
					for len(p) < n {
						p = append(p, byte('a'+(wi*7+j+len(p))%26))
					}
					p = append(p[:max(n-1, len(fmt.Sprintf("<w%d.%d:", wi, j)))], '>')
					payloads = append(payloads, p)
					w.Step(name, "write")
					if s.InTeardown() {
						return
					}
					if l < 0 {
						hcon.WriteEvent(p)
					} else {
						hcon.Write(p)
					}
				}
			})
		}
		maxWriters := 0
		s.OnQuiescent = func() error {
			if n := s.ParkedCount("sockwrite", c.ID) + s.ParkedCount("wlock", -1); n > maxWriters {
				maxWriters = n
			}
			return nil
		}
		if err := s.Run(func() bool { return done == len(d.Writers) }); err != nil {
			o.Harness = err.Error()
			return o
		}
		var fail, failSig string
		if done != len(d.Writers) {
			failSig, fail = "stalled", fmt.Sprintf("writers finished: %d of %d", done, len(d.Writers))
		} else {
			op := ref.FrameOpener{Key: a2c}
			plain, frames, err := op.FeedFrames(c.Sent[1][plainPrefix:])
			if err != nil {
				failSig, fail = "frame-out-of-order", fmt.Sprintf("frame #%d on the socket does not authenticate with counter %d: counters were reused or emitted out of order", frames, frames)
			} else if op.Buffered() > 0 {
				failSig, fail = "partial-frame", "trailing bytes on the socket are not a whole frame"
			} else if n, err := segmentWrites(plain, payloads); err != nil {
				failSig, fail = "payload-not-contiguous", fmt.Sprintf("after %d intact payloads: %v", n, err)
			}
		}
		if fail != "" {
			o.Violation, o.Sig, o.Detail = "C08:"+failSig, failSig, fail+fmt.Sprintf(" [direct, writers=%v]", d.Writers)
		}
		if maxWriters >= 2 {
			s.Count("probe.two_writers_parked")
		}
		s.Count("probe.direct_connection")
		o.Nontrivial = maxWriters >= 2
		o.Shape = fmt.Sprintf("direct|%v|%x", d.Writers, s.Hash())
		return o
	})
}

func runC08(t *testing.T, sci interface{}) *Outcome {
	sc := sci.(*C08Scenario)
	if sc.Direct != nil {
		return runC08Direct(t, sc.Direct)
	}
	return bubbleOutcome(t, sc.Seed, sc.Sched, func(w *World) *Outcome {
		o := &Outcome{}
		s := w.Sim
		xkp, ykp := w.Keypair(), w.Keypair()
		w.SeedPairing("ctl-x", xkp)
		w.SeedPairing("ctl-y", ykp)
		ta := newTestAccessory("C08")
		all := []*accessory.Accessory{ta.Accessory}
		for i := 0; i < sc.Bridge; i++ {
			all = append(all, newTestAccessory(fmt.Sprintf("Extra%d", i)).Accessory)
		}
		if err := w.NewTransport(hc.Config{Pin: "00102003"}, all); err != nil {
			o.Harness = err.Error()
			return o
		}
		w.Start()
		writes := map[int][][]byte{}
		s.OnPark = func(p *core.Parked, payload []byte) {
			if p.Kind == "write" {
				writes[p.Conn] = append(writes[p.Conn], append([]byte(nil), payload...))
			}
		}
		var fail, failSig string
		violate := func(sig, f string, a ...interface{}) {
			if fail == "" {
				failSig, fail = sig, fmt.Sprintf(f, a...)
			}
		}
		var xcl *ref.Client
		var xconn *core.Conn
		subscribed := false
		done := 0
		actors := 1
		evBody := func() string {
			var e []string
			for _, c := range ta.Chars {
				e = append(e, fmt.Sprintf(`{"aid":1,"iid":%d,"ev":true}`, c.ID))
			}
			return `{"characteristics":[` + strings.Join(e, ",") + `]}`
		}
		s.Go("x", func() {
			defer func() { done++ }()
			cl, c, err := w.verified("x", "ctl-x", xkp)
			xcl, xconn = cl, c
			if err != nil {
				violate("x-verify", "controller X cannot verify: %v", err)
				return
			}
			m, err := cl.Do("PUT", "/characteristics", ref.CTypeJSON, []byte(evBody()))
			if err != nil || m.Status != 204 {
				violate("x-subscribe", "controller X cannot subscribe: %v %v", m, err)
				return
			}
			subscribed = true
			for i := 0; i < sc.XReqs; i++ {
				path := "/accessories"
				if i%2 == 1 {
					path = fmt.Sprintf("/characteristics?id=1.%d,1.%d", ta.Chars[0].ID, ta.Chars[3].ID)
				}
				if _, err := cl.Do("GET", path, "", nil); err != nil {
					if strings.Contains(err.Error(), "cannot decrypt") {
						return // the oracle on the socket stream below reports it precisely
					}
					violate("x-request", "controller X: GET %s failed: %v", path, err)
					return
				}
			}
		})
		// application goroutines start once X is subscribed
		uniq := 0
		for g := 0; g < sc.NApp; g++ {
			actors++
			name := fmt.Sprintf("app%d", g)
			g := g
			s.Go(name, func() {
				defer func() { done++ }()
				for i := 0; i < sc.AppOps; i++ {
					w.StepWhen(name, "set", func() bool { return subscribed })
					if s.InTeardown() {
						return
					}
					uniq++
					k := uniq
					switch (g + i) % 4 {
					case 0:
						ta.Bri.SetValue(k % 101)
					case 1:
						if sc.Big {
							ta.Name.SetValue(fmt.Sprintf("name-%d-", k) + strings.Repeat("x", 1500+37*k))
						} else {
							ta.Name.SetValue(fmt.Sprintf("name-%d", k))
						}
					case 2:
						ta.Hue.SetValue(float64(k%360) + 0.5)
					default:
						ta.On.SetValue(k%2 == 0)
					}
				}
			})
		}
		if sc.OtherOps > 0 {
			actors++
			s.Go("y", func() {
				defer func() { done++ }()
				w.StepWhen("y", "start", func() bool { return subscribed })
				cl, _, err := w.verified("y", "ctl-y", ykp)
				if err != nil {
					violate("y-verify", "controller Y cannot verify: %v", err)
					return
				}
				for i := 0; i < sc.OtherOps; i++ {
					body := fmt.Sprintf(`{"characteristics":[{"aid":1,"iid":%d,"value":%d}]}`, ta.Bri.ID, 10+i)
					if i%2 == 1 {
						body = fmt.Sprintf(`{"characteristics":[{"aid":1,"iid":%d,"value":"by-y-%d"}]}`, ta.Name.ID, i)
					}
					if _, err := cl.Do("PUT", "/characteristics", ref.CTypeJSON, []byte(body)); err != nil {
						violate("y-request", "controller Y: PUT failed: %v", err)
						return
					}
				}
			})
		}
		kaLeft := sc.KeepAlive
		if sc.KeepAlive > 0 {
			ctx, cancel := gocontext.WithCancel(gocontext.Background())
			defer cancel()
			ka := hap.NewKeepAlive(10*time.Minute, w.Tr.VerifContext())
			s.GoNow("ka", func() { ka.Start(ctx) })
			s.Extra = func() []core.Action {
				if kaLeft <= 0 || !subscribed {
					return nil
				}
				return []core.Action{{Key: "4|time", Desc: "advance clock 10m", Do: func(int) {
					kaLeft--
					s.Count("fault.keepalive_fired")
					time.Sleep(10*time.Minute + time.Second)
				}}}
			}
		}
		maxWriters := 0
		s.OnQuiescent = func() error {
			if xconn != nil {
				n := s.ParkedCount("sockwrite", xconn.ID) + s.ParkedCount("wlock", -1)
				if n > maxWriters {
					maxWriters = n
				}
			}
			return nil
		}
		if err := s.Run(func() bool { return fail != "" || done == actors }); err != nil {
			o.Harness = err.Error()
			return o
		}
		// let everything still parked finish its write, without the scheduler choosing any more
		if fail == "" && done != actors {
			violate("stalled", "the run ended with actors still waiting (done %d of %d)", done, actors)
		}
		if maxWriters >= 2 {
			s.Count("probe.two_writers_parked")
		}
		if fail == "" && xcl != nil && xconn != nil {
			// the oracle works on everything the accessory put on X's socket, in socket order
			sent := xconn.Sent[1]
			from := xcl.EncFrom
			if from > len(sent) {
				from = len(sent)
			}
			a2c, _, _, _ := xcl.SessionState()
			op := ref.FrameOpener{Key: a2c}
			plain, frames, err := op.FeedFrames(sent[from:])
			if err != nil {
				violate("frame-out-of-order", "frame #%d on controller X's socket does not authenticate with counter %d: counters were reused or emitted out of order (%d frames were fine)", frames, frames, frames)
			} else {
				stream := append(append([]byte(nil), sent[:from]...), plain...)
				if op.Buffered() > 0 {
					violate("partial-frame", "%d trailing bytes on X's socket are not a whole frame", op.Buffered())
				} else if n, err := segmentWrites(stream, writes[xconn.ID]); err != nil {
					violate("payload-not-contiguous", "after %d intact payloads: %v", n, err)
				} else {
					// message level: the stream is a sequence of whole HTTP responses and EVENT messages
					rest := stream
					msgs := 0
					for len(rest) > 0 {
						m, used, err := ref.ParseMessage(rest)
						if err != nil || m == nil {
							if eventInsideResponse(stream) {
								violate("event-inside-response", "an EVENT message sits inside an HTTP response on X's connection (after %d whole messages)", msgs)
							} else if err != nil {
								violate("stream-not-http", "after %d whole messages the stream on X's connection does not parse: %v", msgs, err)
							}
							break
						}
						rest = rest[used:]
						msgs++
					}
					if sc.Bridge > 0 {
						s.Count("probe.multi_write_responses")
					}
				}
			}
		}
		if pl := w.PanicLines(); len(pl) > 0 && fail == "" {
			violate("panic", "%s", pl[0])
		}
		if fail != "" {
			o.Violation = "C08:" + failSig
			o.Sig = failSig
			o.Detail = fail
		}
		o.Nontrivial = maxWriters >= 2
		o.Shape = fmt.Sprintf("%d/%d/%v/%d/%d/%d|%x", sc.NApp, sc.AppOps, sc.Big, sc.OtherOps, sc.XReqs, sc.KeepAlive, s.Hash())
		return o
	})
}

func TestC08(t *testing.T) {
	drive(t, &PropDef{ID: "C08", Gen: genC08, Decode: decodeInto[C08Scenario], Run: runC08, Checks: 60, CrashCapture: true})
}
