package props

import "testing"

func TestC01(t *testing.T) {
	drive(t, &PropDef{ID: "C01", Gen: genAdv("C01"), Decode: decodeInto[AdvScenario], Run: runAdv, Checks: 60, CrashCapture: true})
}

func TestC02(t *testing.T) {
	drive(t, &PropDef{ID: "C02", Gen: genAdv("C02"), Decode: decodeInto[AdvScenario], Run: runAdv, Checks: 40, CrashCapture: true})
}

func TestC03(t *testing.T) {
	drive(t, &PropDef{ID: "C03", Gen: genAdv("C03"), Decode: decodeInto[AdvScenario], Run: runAdv, Checks: 60, CrashCapture: true})
}

func TestC13(t *testing.T) {
	drive(t, &PropDef{ID: "C13", Gen: genAdv("C13"), Decode: decodeInto[AdvScenario], Run: runAdv, Checks: 40, CrashCapture: true})
}
