package props

import (
	"bytes"
	"encoding/binary"
	"fmt"
	"io"
	mrand "math/rand/v2"
	"net"
	"testing"
	"time"

	hccrypto "github.com/brutella/hc/crypto"
	"github.com/brutella/hc/hap"
	"pgregory.net/rapid"

	"verif/sim/core"
	"verif/sim/ref"
)

// C07: reads on an encrypted connection deliver exactly the bytes sent.
// System under simulation: one real hap.Connection over a simulated TCP connection; a peer
// goroutine sends reference-framed messages, the scheduler decides segmentation, the
// interleaving of peer writes and caller reads, and when a read deadline trips.

type C07Scenario struct {
	Seed  uint64   `json:"seed"`
	Msgs  []int    `json:"msgs"`
	Bufs  []int    `json:"bufs"`
	Trips int      `json:"trips"`
	Sched []uint16 `json:"sched"`
}

func genC07(rt *rapid.T) interface{} {
	sc := &C07Scenario{Seed: rapid.Uint64().Draw(rt, "seed")}
	n := rapid.IntRange(1, 5).Draw(rt, "nmsg")
	for i := 0; i < n; i++ {
		switch rapid.IntRange(0, 3).Draw(rt, "lk") {
		case 0:
			sc.Msgs = append(sc.Msgs, rapid.SampledFrom([]int{0, 0, 1, 2, 16, 1023, 1024, 1025, 2048, 3072, 4096}).Draw(rt, "len")) // 0: one frame without content
		case 1:
			sc.Msgs = append(sc.Msgs, rapid.IntRange(0, 80).Draw(rt, "len"))
		default:
			sc.Msgs = append(sc.Msgs, rapid.IntRange(1, 5000).Draw(rt, "len"))
		}
	}
	nb := rapid.IntRange(1, 4).Draw(rt, "nbuf")
	for i := 0; i < nb; i++ {
		if rapid.Bool().Draw(rt, "bk") {
			sc.Bufs = append(sc.Bufs, rapid.SampledFrom([]int{1, 2, 16, 1023, 1024, 1025, 4096}).Draw(rt, "buf"))
		} else {
			sc.Bufs = append(sc.Bufs, rapid.IntRange(1, 6000).Draw(rt, "buf"))
		}
	}
	sc.Trips = rapid.IntRange(0, 3).Draw(rt, "trips")
	sc.Sched = genSched(rt, 300)
	return sc
}

// plainAvailable returns how many plaintext bytes are contained in the complete frames
// among the first d bytes of a well-formed frame stream.
func plainAvailable(stream []byte, d int) int {
	p, off := 0, 0
	for off+2 <= d {
		n := int(binary.LittleEndian.Uint16(stream[off : off+2]))
		if off+2+n+16 > d {
			break
		}
		p += n
		off += 2 + n + 16
	}
	return p
}

func runC07(t *testing.T, sci interface{}) *Outcome {
	sc := sci.(*C07Scenario)
	return bubbleOutcome(t, sc.Seed, sc.Sched, func(w *World) *Outcome {
		o := &Outcome{}
		s := w.Sim
		rng := mrand.NewChaCha8(seedBytes(sc.Seed, 7))
		var shared [32]byte
		rng.Read(shared[:])
		_, c2a := ref.SessionKeys(shared)
		ctx := hap.NewContextForSecuredDevice(nil)
		c := s.NewPair("10.0.0.2:40001", "10.0.0.1:51826")
		var hcon *hap.Connection
		var herr error
		s.Inline(func() {
			hcon = hap.NewConnection(c.Server(), ctx)
			var sess hccrypto.Cryptographer
			sess, herr = hccrypto.NewSecureSessionFromSharedKey(shared)
			if herr == nil {
				ctx.GetSessionForConnection(hcon).SetCryptographer(sess)
			}
		})
		if herr != nil {
			o.Harness = herr.Error()
			return o
		}
		// what the peer will send
		var sent, stream []byte
		var wires [][]byte
		var ctr uint64
		for _, l := range sc.Msgs {
			p := make([]byte, l)
			rng.Read(p)
			sent = append(sent, p...)
			wire := ref.FrameSeal(c2a, &ctr, p)
			wires = append(wires, wire)
			stream = append(stream, wire...)
		}
		var got []byte
		var fail, failSig string
		violate := func(sig, f string, a ...interface{}) {
			if fail == "" {
				failSig = sig
				fail = fmt.Sprintf(f, a...)
			}
		}
		peerDone, readerDone := false, false
		trips := 0
		s.Go("peer", func() {
			defer func() { peerDone = true }()
			for i, wire := range wires {
				w.Step("peer", fmt.Sprintf("send msg %d (%d bytes)", i, sc.Msgs[i]))
				c.Client().Write(wire)
			}
		})
		s.Go("reader", func() {
			defer func() { readerDone = true }()
			for i := 0; len(got) < len(sent); i++ {
				size := sc.Bufs[i%len(sc.Bufs)]
				buf := make([]byte, size)
				n, err := hcon.Read(buf)
				if n < 0 || n > size {
					violate("bad-n", "Read returned n=%d for a buffer of %d", n, size)
					return
				}
				got = append(got, buf[:n]...)
				if len(got) > len(sent) || !bytes.Equal(got, sent[:len(got)]) {
					at := 0
					for at < len(got) && at < len(sent) && got[at] == sent[at] {
						at++
					}
					violate("wrong-bytes", "read %d returned bytes that are not the continuation of what was sent (first difference at stream offset %d of %d)", i, at, len(sent))
					return
				}
				if err != nil {
					if ne, ok := err.(net.Error); ok && ne.Timeout() {
						s.Count("read.timeout.seen")
						hcon.SetReadDeadline(time.Time{})
						continue
					}
					if err == io.EOF {
						violate("spurious-eof", "read %d returned io.EOF after %d of %d bytes while the peer is connected", i, len(got), len(sent))
					} else {
						violate("spurious-error", "read %d returned %v after %d of %d bytes while the peer is connected and sending well-formed frames", i, err, len(got), len(sent))
					}
					return
				}
				if n == 0 && size > 0 {
					s.Count("read.zero")
					if i > 20000 {
						violate("zero-reads", "reads keep returning 0 bytes without error")
						return
					}
				}
			}
		})
		s.Extra = func() []core.Action {
			if trips >= sc.Trips || readerDone {
				return nil
			}
			return []core.Action{{Key: "4|trip", Desc: "trip read deadline", Do: func(int) {
				trips++
				s.Count("fault.deadline")
				if c.Delivered(0) > 0 && plainAvailable(stream, c.Delivered(0)) < len(sent) {
					s.Count("fault.deadline.midstream")
				}
				c.Server().SetReadDeadline(time.Unix(1, 0))
			}}}
		}
		s.OnQuiescent = func() error {
			if fail != "" {
				return nil
			}
			// promptness: the connection waits for the network although a complete frame's
			// plaintext has not been handed to the caller
			if c.ReaderWaiting(1) && !readerDone {
				avail := plainAvailable(stream, c.Delivered(0))
				if len(got) < avail {
					violate("stalled-with-complete-frame", "the connection asks the network for more bytes although %d plaintext bytes of completely arrived frames have not been returned (returned %d, delivered %d stream bytes)", avail-len(got), len(got), c.Delivered(0))
				}
			}
			return nil
		}
		if err := s.Run(func() bool { return fail != "" || (readerDone && peerDone) }); err != nil {
			o.Harness = err.Error()
			return o
		}
		if fail == "" && !readerDone {
			violate("stalled", "run ended with %d of %d bytes returned (peer done=%v, delivered %d of %d stream bytes)", len(got), len(sent), peerDone, c.Delivered(0), len(stream))
		}
		if fail != "" {
			o.Violation = "C07:" + failSig
			o.Sig = failSig
			o.Detail = fail + fmt.Sprintf(" [msgs=%v bufs=%v]", sc.Msgs, sc.Bufs)
		}
		o.Nontrivial = s.Stats["net.split"] > 0 || len(sc.Msgs) > 1
		o.Shape = fmt.Sprintf("%v|%v|%d|%x", sc.Msgs, sc.Bufs, trips, s.Hash())
		return o
	})
}

func TestC07(t *testing.T) {
	drive(t, &PropDef{ID: "C07", Gen: genC07, Decode: decodeInto[C07Scenario], Run: runC07, Checks: 100, CrashCapture: true})
}
