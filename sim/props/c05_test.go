package props

import (
	"bytes"
	"encoding/binary"
	"fmt"
	"io"
	mrand "math/rand/v2"
	"net"
	"testing"
	"time"

	"github.com/brutella/hc/hap"
	"verif/sim/core"

	hccrypto "github.com/brutella/hc/crypto"
	"pgregory.net/rapid"

	"verif/sim/ref"
)

// C05 (codec layer): any alteration of the encrypted stream is detected.
// sender (reference framing) -> byte stream -> fault injector -> hc Decrypt fed through a
// simulated chunking source, message by message.

type C05Op struct {
	Kind string `json:"kind"`
	A    int    `json:"a"`
	B    int    `json:"b"`
}

type C05Scenario struct {
	Sys   *C05SysScenario `json:"sys,omitempty"` // system-layer scenario (the fields below are unused then)
	Seed  uint64          `json:"seed"`
	Ctr   uint64          `json:"ctr"`  // frame counter the stream starts at
	Msgs  []int           `json:"msgs"` // plaintext lengths
	Ops   []C05Op         `json:"ops"`
	Chunk int             `json:"chunk"`
	Conn  bool            `json:"conn"` // feed the stream through a real hap.Connection (Read) instead of Decrypt
	// Duplex > 0: while Decrypt waits in its Duplex-th read of the source, the accessory sends a
	// byte in the other direction on the same session (as the connection's writers do)
	Duplex int `json:"duplex,omitempty"`
}

var c05Kinds = []string{"flip", "trunc", "drop", "dup", "swap", "replay", "reflect", "xsess", "splice", "insert", "lenbit", "tagbit", "xctr", "xctr"}

func genC05(rt *rapid.T) interface{} {
	if rapid.IntRange(0, 3).Draw(rt, "layer") == 0 {
		return &C05Scenario{Sys: genC05Sys(rt)}
	}
	sc := &C05Scenario{Seed: rapid.Uint64().Draw(rt, "seed"), Chunk: rapid.IntRange(0, 4).Draw(rt, "chunk")}
	sc.Ctr = rapid.SampledFrom(interestingCounters).Draw(rt, "ctr")
	sc.Conn = rapid.IntRange(0, 2).Draw(rt, "conn") == 0
	n := rapid.IntRange(1, 4).Draw(rt, "nmsg")
	for i := 0; i < n; i++ {
		switch rapid.IntRange(0, 3).Draw(rt, "lk") {
		case 0:
			sc.Msgs = append(sc.Msgs, rapid.IntRange(0, 64).Draw(rt, "len"))
		case 1:
			sc.Msgs = append(sc.Msgs, rapid.SampledFrom([]int{1023, 1024, 1025, 2048}).Draw(rt, "len"))
		default:
			sc.Msgs = append(sc.Msgs, rapid.IntRange(0, 2600).Draw(rt, "len"))
		}
	}
	if rapid.IntRange(0, 2).Draw(rt, "duplex") == 0 {
		sc.Duplex = rapid.IntRange(1, 10).Draw(rt, "duplexat")
	}
	k := rapid.IntRange(0, 3).Draw(rt, "nops")
	for i := 0; i < k; i++ {
		sc.Ops = append(sc.Ops, C05Op{Kind: rapid.SampledFrom(c05Kinds).Draw(rt, "kind"), A: rapid.IntRange(0, 1<<20).Draw(rt, "a"), B: rapid.IntRange(0, 1<<20).Draw(rt, "b")})
	}
	return sc
}

// splitFrames cuts a well-formed frame stream into frames.
func splitFrames(b []byte) [][]byte {
	var out [][]byte
	for len(b) >= 2 {
		n := int(binary.LittleEndian.Uint16(b[:2])) + 18
		if n > len(b) {
			n = len(b)
		}
		out = append(out, b[:n])
		b = b[n:]
	}
	return out
}

func runC05(t *testing.T, sci interface{}) *Outcome {
	sc := sci.(*C05Scenario)
	if sc.Sys != nil {
		return runC05Sys(t, sc.Sys)
	}
	o := &Outcome{Stats: map[string]int{}}
	rng := mrand.NewChaCha8(seedBytes(sc.Seed, 5))
	var shared, other [32]byte
	rng.Read(shared[:])
	rng.Read(other[:])
	acc, err := hccrypto.NewSecureSessionFromSharedKey(shared)
	if err != nil {
		o.Harness = err.Error()
		return o
	}
	_, c2a := ref.SessionKeys(shared)
	_, c2aOther := ref.SessionKeys(other)
	ctr, ctrO := sc.Ctr, sc.Ctr
	if sc.Ctr != 0 {
		if !hccrypto.VerifSetCounters(acc, sc.Ctr, sc.Ctr) {
			o.Harness = "VerifSetCounters: not a secure session"
			return o
		}
		o.Stats["probe.high_counter"]++
	}
	var frameCtr []uint64 // counter of each original frame
	var frames [][]byte   // original frames, in order
	var plains [][]byte   // plaintext per frame
	var otherFrames [][]byte
	for _, l := range sc.Msgs {
		p := make([]byte, l)
		rng.Read(p)
		c0 := ctr
		fs := splitFrames(ref.FrameSeal(c2a, &ctr, p))
		for k := range fs {
			frameCtr = append(frameCtr, c0+uint64(k))
		}
		frames = append(frames, fs...)
		otherFrames = append(otherFrames, splitFrames(ref.FrameSeal(c2aOther, &ctrO, p))...)
		rest := p
		for range fs {
			n := min(len(rest), 1024)
			plains = append(plains, rest[:n])
			rest = rest[n:]
		}
	}
	// the accessory's own output, for reflection
	var reflected [][]byte
	for _, l := range sc.Msgs {
		p := make([]byte, max(l, 1))
		rng.Read(p)
		r, err := acc.Encrypt(bytes.NewReader(p))
		if err != nil {
			o.Harness = err.Error()
			return o
		}
		b, _ := io.ReadAll(r)
		reflected = append(reflected, splitFrames(b)...)
	}
	// apply the alterations to a copy of the frame list
	tam := make([][]byte, len(frames))
	for i := range frames {
		tam[i] = append([]byte(nil), frames[i]...)
	}
	var tail []byte // raw bytes appended after the frames (none by default)
	truncAt := -1
	for _, op := range sc.Ops {
		if len(tam) == 0 {
			break
		}
		a := op.A % len(tam)
		o.Stats["fault."+op.Kind]++
		switch op.Kind {
		case "flip":
			f := tam[a]
			if len(f) == 0 {
				continue
			}
			pos := op.B % (len(f) * 8)
			f[pos/8] ^= 1 << (pos % 8)
		case "lenbit":
			tam[a][op.B%min(2, len(tam[a]))] ^= 1 << (op.B / 2 % 8)
		case "tagbit":
			f := tam[a]
			f[len(f)-1-op.B%min(16, len(f))] ^= 1 << (op.B / 16 % 8)
		case "trunc":
			var total int
			for _, f := range tam {
				total += len(f)
			}
			if total > 0 {
				truncAt = op.B % total
			}
		case "drop":
			tam = append(tam[:a], tam[a+1:]...)
		case "dup":
			tam = append(tam[:a+1], append([][]byte{append([]byte(nil), tam[a]...)}, tam[a+1:]...)...)
		case "swap":
			if a+1 < len(tam) {
				tam[a], tam[a+1] = tam[a+1], tam[a]
			}
		case "replay":
			b := op.B % (len(tam) + 1)
			cp := append([]byte(nil), tam[a]...)
			tam = append(tam[:b], append([][]byte{cp}, tam[b:]...)...)
		case "reflect":
			if len(reflected) > 0 {
				tam[a] = append([]byte(nil), reflected[op.B%len(reflected)]...)
			}
		case "xctr":
			// the same plaintext sealed for a counter 2^32 (or 2^8, 2^16) away: a replay from far in the past or future
			if a < len(plains) && a < len(frameCtr) {
				d := []uint64{1 << 32, 1 << 32, 1 << 8, 1 << 16, 1 << 33}[op.B%5]
				c := frameCtr[a] + d
				if op.B%2 == 1 {
					c = frameCtr[a] - d
				}
				tam[a] = ref.FrameSeal(c2a, &c, plains[a])
			}
		case "xsess":
			tam[a] = append([]byte(nil), otherFrames[a%len(otherFrames)]...)
		case "splice":
			b := op.B % len(tam)
			if len(tam[a]) < 2 || len(tam[b]) < 2 {
				continue
			}
			if len(tam[a]) == len(tam[b]) {
				tam[a] = append(append([]byte(nil), tam[a][:2]...), tam[b][2:]...)
			} else {
				tam[a] = append(append([]byte(nil), tam[b][:2]...), tam[a][2:]...)
			}
		case "insert":
			junk := make([]byte, 1+op.B%40)
			rng.Read(junk)
			tam = append(tam[:a], append([][]byte{junk}, tam[a:]...)...)
		}
	}
	var stream []byte
	for _, f := range tam {
		stream = append(stream, f...)
	}
	stream = append(stream, tail...)
	if truncAt >= 0 && truncAt < len(stream) {
		stream = stream[:truncAt]
	}
	// first altered frame: longest prefix of original frames the tampered stream starts with
	good := 0
	off := 0
	for good < len(frames) && off+len(frames[good]) <= len(stream) && bytes.Equal(stream[off:off+len(frames[good])], frames[good]) {
		off += len(frames[good])
		good++
	}
	leftover := len(stream) - off // bytes after the intact prefix
	altered := leftover > 0 || good < len(frames)
	_ = altered

	src := newChunkReader(stream, sc.Chunk, sc.Seed)
	if sc.Duplex > 0 {
		src.duringAt = sc.Duplex
		src.during = func() {
			o.Stats["probe.encrypt_while_decrypt_waits"]++
			if r, err := acc.Encrypt(bytes.NewReader([]byte{0x2a})); err == nil {
				io.ReadAll(r)
			}
		}
	}
	var released []byte
	var derr error
	calls := 0
	if sc.Conn {
		// connection level: the same stream arrives on a socket (cut into segments by the chunking
		// source) and is read through hap.Connection.Read with a small and a large caller buffer
		o.Stats["probe.via_connection"]++
		ctx := hap.NewContextForSecuredDevice(nil)
		sock := &scriptedConn{src: src}
		hcon := hap.NewConnection(sock, ctx)
		ctx.GetSessionForConnection(hcon).SetCryptographer(acc)
		hcon.Write([]byte("x")) // the plain write after which the cryptographer is active
		buf := make([]byte, []int{1, 7, 4096}[int(sc.Seed%3)])
		for calls < 100000 {
			calls++
			n, err := hcon.Read(buf)
			released = append(released, buf[:n]...)
			if err != nil {
				// end of stream counts as the report when the socket ran dry inside the altered part
				// (a frame announced longer than what follows): nothing more is released after it
				if err != io.EOF || leftover > 0 {
					derr = err
				}
				break
			}
		}
	}
	for !sc.Conn && len(src.data) > 0 && calls < 64 {
		before := len(src.data)
		r, err := acc.Decrypt(src)
		calls++
		if err != nil {
			derr = err
			break
		}
		b, _ := io.ReadAll(r)
		released = append(released, b...)
		if len(src.data) == before {
			break
		}
	}
	fail := func(sig, f string, a ...interface{}) *Outcome {
		o.Violation = "C05:" + sig
		o.Sig = sig
		o.Detail = fmt.Sprintf(f, a...) + fmt.Sprintf(" [msgs=%v ops=%v intact-prefix=%d/%d frames leftover=%d]", sc.Msgs, sc.Ops, good, len(frames), leftover)
		return o
	}
	// (1) released plaintext is the concatenation of the first k original frames, k <= good
	var all []byte
	cum := []int{0}
	for _, p := range plains {
		all = append(all, p...)
		cum = append(cum, len(all))
	}
	if len(released) > len(all) || !bytes.Equal(released, all[:len(released)]) {
		return fail("released-not-a-prefix", "released %d plaintext bytes that are not a prefix of the %d bytes sent", len(released), len(all))
	}
	k := -1
	for i, c := range cum {
		if c == len(released) {
			k = i
			break
		}
	}
	if k < 0 {
		return fail("released-partial-frame", "released %d plaintext bytes, which does not end on a frame boundary of what was sent", len(released))
	}
	if k > good {
		return fail("released-beyond-alteration", "released plaintext of %d frames although only the first %d frames arrived unaltered", k, good)
	}
	// (2) an error no later than the first altered frame
	if leftover > 0 && derr == nil {
		return fail("alteration-not-reported", "the stream carried %d bytes after the intact prefix and no Decrypt call returned an error", leftover)
	}
	if len(sc.Ops) == 0 {
		if derr != nil {
			return fail("error-on-intact-stream", "Decrypt of an unaltered stream failed: %v", derr)
		}
		if !bytes.Equal(all, released) {
			return fail("intact-stream-mismatch", "unaltered stream: released %d bytes, sent %d", len(released), len(all))
		}
	}
	o.Nontrivial = leftover > 0 || good < len(frames)
	o.Shape = fmt.Sprintf("%v|%v|%d|%d", sc.Msgs, sc.Ops, sc.Chunk, good)
	o.LogHash = uint64(len(stream))*1000003 + uint64(good)
	if derr != nil {
		o.Stats["detected"]++
	}
	return o
}

// scriptedConn is a socket that delivers a prepared byte stream in the segments the chunking source decides.
type scriptedConn struct {
	src     *chunkReader
	closed  bool
	partial bool
}

func (c *scriptedConn) Read(b []byte) (int, error) {
	if c.closed {
		return 0, net.ErrClosed
	}
	return c.src.Read(b)
}
func (c *scriptedConn) Write(b []byte) (int, error)        { return len(b), nil }
func (c *scriptedConn) Close() error                       { c.closed = true; return nil }
func (c *scriptedConn) LocalAddr() net.Addr                { return core.Addr("10.0.0.1:51826") }
func (c *scriptedConn) RemoteAddr() net.Addr               { return core.Addr("10.0.0.2:40001") }
func (c *scriptedConn) SetDeadline(t time.Time) error      { return nil }
func (c *scriptedConn) SetReadDeadline(t time.Time) error  { return nil }
func (c *scriptedConn) SetWriteDeadline(t time.Time) error { return nil }

// fixedC05 is the exhaustive single-bit-flip sub-space for streams of up to two frames of
// at most 64 bytes, and one 1024+5 byte two-frame message.
func fixedC05(t *testing.T, emit func(sc interface{}, o *Outcome)) {
	w := int(envInt("VERIF_WORKER", 0))
	n := int(envInt("VERIF_WORKERS", 1))
	var streams [][]int
	for _, l := range []int{0, 1, 2, 16, 17, 63, 64} {
		streams = append(streams, []int{l})
	}
	for _, a := range []int{0, 1, 33, 64} {
		for _, b := range []int{0, 1, 33, 64} {
			streams = append(streams, []int{a, b})
		}
	}
	streams = append(streams, []int{1029})
	idx := 0
	for si, msgs := range streams {
		total := 0
		for _, l := range msgs {
			total += l + 18*((l+1023)/1024)
			if l == 0 {
				total += 18
			}
		}
		for bit := 0; bit < total*8; bit++ {
			idx++
			if idx%n != w {
				continue
			}
			// locate frame and bit: op "flip" addresses (frame, bit in frame); use frame sizes
			rem := bit
			frame := 0
			var sizes []int
			for _, l := range msgs {
				if l == 0 {
					sizes = append(sizes, 18)
				}
				for l > 0 {
					k := min(l, 1024)
					sizes = append(sizes, k+18)
					l -= k
				}
			}
			for rem >= sizes[frame]*8 {
				rem -= sizes[frame] * 8
				frame++
			}
			sc := &C05Scenario{Seed: uint64(si + 1), Msgs: msgs, Ops: []C05Op{{Kind: "flip", A: frame, B: rem}}, Chunk: bit % 5}
			o := runC05(t, sc)
			if o.Stats == nil {
				o.Stats = map[string]int{}
			}
			o.Stats["bitflip.sweep"]++
			emit(sc, o)
		}
	}
}

func TestC05(t *testing.T) {
	drive(t, &PropDef{ID: "C05", Gen: genC05, Decode: decodeInto[C05Scenario], Run: runC05, Checks: 300, Fixed: fixedC05, FixedAllWorkers: true, CrashCapture: true, CrashCaptureIf: func(sc interface{}) bool { c, ok := sc.(*C05Scenario); return ok && (c.Sys != nil || c.Conn) }})
}
