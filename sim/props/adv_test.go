package props

import (
	"bytes"
	"crypto/ed25519"
	"encoding/json"
	"fmt"
	"image"
	"io"
	"net"
	"net/url"
	"reflect"
	"sort"
	"strings"
	"testing"

	"github.com/brutella/hc"
	"github.com/brutella/hc/accessory"
	"github.com/brutella/hc/characteristic"
	"pgregory.net/rapid"

	"verif/sim/core"
	"verif/sim/ref"
)

// The adversarial world: the real transport, one legitimate controller L, an application
// goroutine, and 1..3 peer connections that run a generated message sequence. What the
// peer knows is a scenario knob: nothing (C01), the setup code (C02 explorer), or a
// paired long-term key (C03 explorer). The four properties C01, C02, C03 and C13 put
// different oracles on the same run.

type AdvOp struct {
	Conn int    `json:"conn"`
	Kind string `json:"kind"`
	Arg  int    `json:"arg"`
	Body string `json:"body,omitempty"` // hex-free raw body for fuzz ops
}

type AdvScenario struct {
	Prop       string   `json:"prop"`
	Seed       uint64   `json:"seed"`
	Pin        string   `json:"pin"`
	NAcc       int      `json:"n_acc"`
	KnowsCode  bool     `json:"knows_code"`
	KnowsKey   bool     `json:"knows_key"` // the peer holds the long-term secret key of stored controller "peer-paired"
	Others     int      `json:"others"`    // further stored controllers
	Legit      bool     `json:"legit"`     // a legitimate controller works on its own connection
	LegitSetup bool     `json:"legit_setup"`
	LegitOps   int      `json:"legit_ops"`
	AppOps     int      `json:"app_ops"`
	Resource   bool     `json:"resource"`              // camera snapshot handler installed
	LegitAdmin string   `json:"legit_admin,omitempty"` // "remove": the legitimate controller removes the pairing of "peer-paired"; "rekey": it stores a new key for it
	Unpaired   bool     `json:"unpaired"`              // no controller pairing is stored when the run starts
	PreVerify  bool     `json:"pre_verify"`            // every peer connection starts with an honest pair-verify (C13: hostile input after verification)
	// Twin: the legitimate controller's connection comes from the same remote ip:port as the first
	// peer connection, to another address of the (multi-homed) accessory. A peer gets there by
	// binding its socket to the port a controller on the same host uses (SO_REUSEPORT).
	Twin bool `json:"twin,omitempty"`
	Ops        []AdvOp  `json:"ops"`
	Sched      []uint16 `json:"sched"`
}

var advHTTP = []string{"path-variant", "get-acc", "get-chars", "put-val", "put-ev", "pairings-add", "pairings-remove", "pairings-list", "resource", "identify"}
var advSetup = []string{"ps-m1", "ps-m3-right", "ps-m3-wrong", "ps-m3-a0", "ps-m3-aN", "ps-m3-noA", "ps-m3-a0-pubproof", "ps-m3-a0-pubproof", "ps-m3-longA", "ps-m3-badprooflen", "ps-m5-weak", "ps-m5-genuine", "ps-m5-tampered", "ps-m5-short", "ps-m5-zero", "ps-m5-nilk", "ps-m5-random", "ps-m5-othersig", "ps-m5-othername", "ps-m5-replay", "ps-unknown-state", "ps-unknown-method"}
var advVerify = []string{"pv-m1", "pv-m1-short", "pv-m3-genuine", "pv-m3-wrongkey", "pv-m3-unknown", "pv-m3-self", "pv-m3-stale", "pv-m3-reordered", "pv-m3-replay", "pv-m3-wrongseal", "pv-m3-short", "pv-m3-badtlv", "pv-unknown-state"}
var advCipher = []string{"replay-legit-handshake", "replay-legit-handshake", "enc-get-own", "enc-get-zero", "enc-get-random", "enc-replay-L", "plain-after"}
var advFuzz = []string{"fuzz-pair-setup", "fuzz-pair-verify", "fuzz-pairings", "fuzz-characteristics", "fuzz-resource", "fuzz-accessories", "fuzz-identify"}

func genFuzzBody(rt *rapid.T) string {
	switch rapid.IntRange(0, 8).Draw(rt, "fb") {
	case 0:
		return string(rapid.SliceOfN(rapid.Byte(), 0, 60).Draw(rt, "bytes"))
	case 1: // truncated TLV
		return string([]byte{byte(rapid.IntRange(0, 11).Draw(rt, "tag")), byte(rapid.IntRange(1, 255).Draw(rt, "len")), 1, 2})
	case 2: // state + short encrypted data
		return string(ref.TLVEncode([]ref.TLV{{Tag: ref.TagState, Val: []byte{byte(rapid.IntRange(0, 7).Draw(rt, "st"))}}, {Tag: ref.TagEncrypted, Val: bytes.Repeat([]byte{7}, rapid.IntRange(0, 40).Draw(rt, "n"))}}))
	case 3: // duplicated / over-long items
		return string(ref.TLVEncode([]ref.TLV{{Tag: ref.TagState, Val: []byte{1}}, {Tag: ref.TagState, Val: []byte{3}}, {Tag: ref.TagPublicKey, Val: bytes.Repeat([]byte{9}, rapid.IntRange(0, 700).Draw(rt, "n"))}, {Tag: ref.TagMethod, Val: []byte{byte(rapid.IntRange(0, 6).Draw(rt, "m"))}}}))
	case 4:
		return rapid.SampledFrom([]string{
			`{"characteristics":[{"aid":1,"iid":2,"value":[1,2]}]}`,
			`{"characteristics":[{"aid":1,"iid":3,"value":{"a":1}},{"aid":1,"iid":3,"value":{"a":1}}]}`,
			`{"characteristics":[{"aid":1,"iid":4,"value":[1],"ev":"yes"},{"aid":1,"iid":4,"value":[1]}]}`,
			`{"characteristics":[{"aid":1,"iid":9,"value":1e308},{"aid":1,"iid":9,"value":-1e308}]}`,
			`{"characteristics":[{"aid":-1,"iid":1.5,"value":null}]}`,
			`{"characteristics":{"aid":1}}`,
			`{"characteristics":[null]}`,
			`[[[[[[[[[[[[[[[[[[[[[[[[[[[[[[]]]]]]]]]]]]]]]]]]]]]]]]]]]]]]`,
			`{"characteristics":[{"aid":1,"iid":2,"ev":[true]}]}`,
			`{"resource-type":"image","image-width":-1,"image-height":1e99}`,
			`{"resource-type":"image","image-width":0,"image-height":0}`,
			`{"resource-type":7}`,
			`nul`, ``, `{`,
		}).Draw(rt, "json")
	case 5: // state byte only
		return string(ref.TLVEncode([]ref.TLV{{Tag: ref.TagState, Val: []byte{byte(rapid.IntRange(0, 9).Draw(rt, "st"))}}}))
	case 6: // finish / key exchange with data shorter than a tag
		return string(ref.TLVEncode([]ref.TLV{{Tag: ref.TagState, Val: []byte{byte(rapid.SampledFrom([]int{3, 5}).Draw(rt, "st"))}}, {Tag: ref.TagEncrypted, Val: bytes.Repeat([]byte{1}, rapid.IntRange(0, 15).Draw(rt, "n"))}}))
	case 7: // pairings with odd fields
		return string(ref.TLVEncode([]ref.TLV{{Tag: ref.TagState, Val: []byte{1}}, {Tag: ref.TagMethod, Val: []byte{byte(rapid.IntRange(0, 7).Draw(rt, "m"))}}, {Tag: ref.TagIdentifier, Val: []byte(rapid.StringN(0, 10, 40).Draw(rt, "id"))}, {Tag: ref.TagPublicKey, Val: bytes.Repeat([]byte{3}, rapid.IntRange(0, 40).Draw(rt, "n"))}}))
	default:
		n := rapid.IntRange(0, 3000).Draw(rt, "n")
		return strings.Repeat("\x05\xff", n/2)
	}
}

func genAdv(prop string) func(rt *rapid.T) interface{} {
	return func(rt *rapid.T) interface{} {
		sc := &AdvScenario{Prop: prop}
		sc.Seed = rapid.Uint64().Draw(rt, "seed")
		sc.Pin = genPin(rt, "pin")
		sc.NAcc = rapid.IntRange(1, 3).Draw(rt, "nacc")
		sc.Others = rapid.IntRange(0, 2).Draw(rt, "others")
		var kinds []string
		nconn := 1
		switch prop {
		case "C01":
			sc.Legit = true
			sc.LegitSetup = rapid.IntRange(0, 5).Draw(rt, "lsetup") == 0
			if rapid.IntRange(0, 3).Draw(rt, "unpaired") == 0 {
				// a fresh (or completely unpaired) accessory: nothing stored, the legitimate
				// controller, if any, has to pair on the wire first
				sc.Unpaired = true
				sc.Others = 0
				sc.Legit = rapid.Bool().Draw(rt, "legit")
				sc.LegitSetup = true
			}
			sc.LegitOps = rapid.IntRange(1, 6).Draw(rt, "lops")
			sc.Twin = sc.Legit && rapid.IntRange(0, 5).Draw(rt, "twin") == 0
			sc.AppOps = rapid.IntRange(0, 4).Draw(rt, "aops")
			sc.Resource = rapid.Bool().Draw(rt, "res")
			nconn = rapid.IntRange(1, 3).Draw(rt, "nconn")
			if !sc.Unpaired && rapid.IntRange(0, 2).Draw(rt, "admin") == 0 {
				// the peer used to be paired: it holds the key of "peer-paired", which the legitimate controller removes or replaces
				sc.KnowsKey = true
				sc.LegitAdmin = rapid.SampledFrom([]string{"remove", "rekey"}).Draw(rt, "adminkind")
				kinds = append(kinds, "pv-m1", "pv-m1", "pv-m3-genuine", "pv-m3-genuine", "pv-m3-genuine", "pv-m3-genuine-new", "enc-get-own", "get-acc")
			}
			kinds = append(kinds, advHTTP...)
			kinds = append(kinds, advHTTP...)
			kinds = append(kinds, advCipher...)
			kinds = append(kinds, advCipher...)
			kinds = append(kinds, "ps-degenerate-chain", "ps-degenerate-chain", "ps-degenerate-chain", "ps-m1", "ps-m1", "ps-m3-wrong", "ps-m3-a0", "ps-m3-a0-pubproof", "ps-m3-a0-pubproof", "ps-m3-longA", "ps-m3-badprooflen", "ps-m5-weak", "ps-m5-weak", "ps-m5-zero", "ps-m5-nilk", "ps-m5-random", "ps-m5-short", "pv-m1", "pv-m1", "pv-m1-short", "pv-m3-wrongkey", "pv-m3-unknown", "pv-m3-self", "pv-m3-self", "pv-m3-stale", "pv-m3-replay", "pv-m3-wrongseal", "pv-m3-short", "pv-m3-badtlv")
		case "C02":
			sc.KnowsCode = rapid.IntRange(0, 2).Draw(rt, "code") != 0
			sc.Legit = rapid.Bool().Draw(rt, "legit")
			sc.LegitSetup = sc.Legit
			sc.LegitOps = 0
			nconn = rapid.IntRange(1, 2).Draw(rt, "nconn")
			kinds = append(kinds, advSetup...)
			kinds = append(kinds, "ps-degenerate-chain", "ps-degenerate-chain", "ps-degenerate-chain", "ps-m1", "ps-m1", "ps-m3-right", "ps-m3-right", "ps-m5-genuine", "ps-m5-zero", "ps-m5-nilk", "ps-m3-a0", "ps-m5-weak", "ps-m5-weak", "ps-twin-race", "ps-twin-race", "ps-replay-honest-setup", "ps-replay-honest-setup")
		case "C03":
			sc.KnowsKey = rapid.IntRange(0, 2).Draw(rt, "key") != 0
			if rapid.IntRange(0, 4).Draw(rt, "unpaired") == 0 {
				sc.Unpaired, sc.KnowsKey, sc.Others = true, false, 0
			}
			sc.Legit = rapid.Bool().Draw(rt, "legit")
			sc.LegitOps = rapid.IntRange(0, 2).Draw(rt, "lops")
			nconn = rapid.IntRange(1, 2).Draw(rt, "nconn")
			kinds = append(kinds, advVerify...)
			kinds = append(kinds, "pv-m1", "pv-m1", "pv-m3-genuine", "pv-m3-self", "pv-m3-wrongkey", "pv-m3-abandon-reuse", "pv-m3-abandon-reuse")
			if sc.KnowsKey && rapid.IntRange(0, 1).Draw(rt, "admin") == 0 {
				sc.Legit = true
				sc.LegitAdmin = rapid.SampledFrom([]string{"remove", "rekey"}).Draw(rt, "adminkind")
				kinds = append(kinds, "pv-m3-genuine", "pv-m3-genuine", "pv-m3-genuine-new", "pv-m3-genuine-new", "pv-m1")
			}
			kinds = append(kinds, "enc-get-own", "enc-get-own", "plain-after", "get-acc", "replay-legit-handshake")
		case "C13":
			sc.KnowsCode = true
			sc.KnowsKey = true
			sc.PreVerify = rapid.Bool().Draw(rt, "prev")
			sc.Resource = rapid.Bool().Draw(rt, "res")
			nconn = rapid.IntRange(1, 2).Draw(rt, "nconn")
			kinds = append(kinds, advFuzz...)
			kinds = append(kinds, advFuzz...)
			kinds = append(kinds, advFuzz...)
			kinds = append(kinds, "stall-partial-body", "stall-partial-body", "reuse-addr", "reuse-addr", "ps-m5-badltpk", "ps-m5-badltpk", "ps-m5-longname", "ps-m5-longname", "pairings-add-shortkey", "pairings-add-shortkey", "pv-m3-shortkey-name", "pv-m3-shortkey-name", "ps-m3-a0-pubproof", "ps-m3-longA", "ps-m3-badprooflen", "ps-m5-weak")
			kinds = append(kinds, "ps-m1", "ps-m3-right", "ps-m3-wrong", "ps-m3-a0", "ps-m3-noA", "ps-m5-short", "ps-m5-random", "ps-m5-tampered", "ps-unknown-state", "ps-unknown-method",
				"pv-m1", "pv-m1-short", "pv-m3-genuine", "pv-m3-short", "pv-m3-wrongseal", "pv-m3-badtlv", "pv-m3-unknown", "pv-m3-self", "pv-unknown-state", "get-acc", "put-val", "put-ev", "get-chars")
		}
		n := rapid.IntRange(1, tierScale(10)).Draw(rt, "nops")
		for i := 0; i < n; i++ {
			op := AdvOp{Conn: rapid.IntRange(0, nconn-1).Draw(rt, "conn"), Kind: rapid.SampledFrom(kinds).Draw(rt, "kind"), Arg: rapid.IntRange(0, 1000).Draw(rt, "arg")}
			if strings.HasPrefix(op.Kind, "fuzz-") {
				op.Body = genFuzzBody(rt)
			}
			sc.Ops = append(sc.Ops, op)
		}
		sc.Sched = genSched(rt, 400)
		return sc
	}
}

// advResult is what the peer observed for one op.
type advResult struct {
	Op        AdvOp
	Sent      bool
	Status    int    // plaintext HTTP status (0: none)
	Body      []byte // plaintext body
	TLV       map[byte][]byte
	DecStatus int // status of a response that decrypted under a key the peer derived itself
	DecBody   []byte
	Err       string
	Closed    bool // the server closed the connection instead of answering
	Genuine   bool // the reference judges this message genuine for its exchange
	Redialed  bool
}

// peerConn is the peer-side state of one connection slot.
type peerConn struct {
	slot  int
	name  string
	w     *World
	cl    *ref.Client
	conn  *core.Conn
	conns []*core.Conn // every connection this slot ever used
	dead  bool

	// pair-setup exchange as the reference sees it
	srp        *ref.SRPClient
	salt, B    []byte
	weakK      []byte // session key the peer assumes after a verify request with a degenerate public key
	weakSet    bool
	m3rightOK  bool // M3 with the right proof was answered with a valid M4 proof, nothing since
	setupClean bool // nothing but M1 since the exchange started

	// pair-verify exchange
	pvStarted bool
	pvPrev    struct{ cPub, aPub [32]byte }
	pvHave    bool

	// spell > 0: requests to the protected endpoints use another legal spelling of the
	// request target (1 absolute-form, 2 / 3 a percent-encoded unreserved character)
	spell int
}

// respell gives a protected request target another spelling that RFC 7230 / RFC 3986 treat
// as equivalent: whatever decides about protection and whatever routes must agree on it.
func respell(path string, how int) string {
	prot := false
	for _, pre := range []string{"/accessories", "/characteristics", "/pairings", "/resource", "/identify"} {
		prot = prot || strings.HasPrefix(path, pre)
	}
	if !prot || how == 0 {
		return path
	}
	end := strings.IndexAny(path, "?")
	if end < 0 {
		end = len(path)
	}
	switch how {
	case 1:
		return "http://acc.local" + path
	case 2:
		return fmt.Sprintf("/%%%02x%s", path[1], path[2:])
	default:
		return fmt.Sprintf("%s%%%02X%s", path[:end-1], path[end-1], path[end:])
	}
}

type advWorld struct {
	sc   *AdvScenario
	w    *World
	accs []*accessory.Accessory

	legitID              string
	legitKP              ref.Keypair
	peerID               string // id used by the peer for itself
	peerKP               ref.Keypair
	pairedID             string // stored controller whose key the peer may hold
	pairedKP             ref.Keypair
	pairedKP2            ref.Keypair // the key the legitimate controller stores for it instead ("rekey")
	adminSent, adminDone bool
	otherIDs             []string

	canaries []string

	// model
	initialEntities map[string][]byte // name -> public key
	allowedStore    map[string][]byte // may be stored (genuine M5 sent)
	requiredStore   map[string][]byte // must be stored (M6 received)
	verifiedConns   map[int]bool      // conn id -> the model holds it verified (genuine finish answered OK)
	allowedVerified map[int]bool      // conn id -> a genuine finish was sent
	legitConn       int
	results         []*advResult
	slots           []*peerConn
	callbacks       []string // remote-update callbacks observed: "aid.iid=value"
	legitWrites     map[string]bool
	legitDone       bool
	legitErr        string
	legitInFlight   string // endpoint the legitimate controller is (about to be) inside
	peersAllDone    bool
	appDone         bool
	capturedM5      []byte // encrypted-data value of the legitimate controller's M5
	capturedSetup   [][]byte // the bodies of the legitimate controller's three pair-setup requests
	capturedPVM3    []byte // TLV body of the legitimate controller's verify finish
	capturedPVM1    []byte // TLV body of its verify start
	snapshotCalls   int
	removedOK       map[string]bool // pairings the legitimate controller removes

	fail, failSig string
}

// on reports whether the running property is one of ps.
func (aw *advWorld) on(ps ...string) bool {
	for _, p := range ps {
		if aw.sc.Prop == p {
			return true
		}
	}
	return false
}

func (aw *advWorld) violate(sig, f string, a ...interface{}) {
	if aw.fail == "" {
		aw.failSig = sig
		aw.fail = fmt.Sprintf(f, a...)
	}
}

func (aw *advWorld) newSlotConn(p *peerConn) {
	cl, c := aw.w.NewClient(p.name)
	p.cl, p.conn = cl, c
	p.conns = append(p.conns, c)
	p.dead = false
	p.srp, p.salt, p.B, p.m3rightOK, p.setupClean = nil, nil, nil, false, false
	p.pvStarted, p.pvHave = false, false
}

// tlvPost sends a TLV body and reads the answer.
func (p *peerConn) post(path, ctype string, body []byte, r *advResult) {
	p.request("POST", path, ctype, body, r)
}

func (p *peerConn) request(method, path, ctype string, body []byte, r *advResult) {
	if p.spell > 0 {
		if np := respell(path, p.spell); np != path {
			path = np
			p.w.Sim.Count("probe.protected_request_with_unusual_target_spelling")
		}
	}
	if err := p.cl.Send(ref.Request(method, path, ctype, body)); err != nil {
		r.Err = err.Error()
		return
	}
	r.Sent = true
	p.readAnswer(r)
}

func (p *peerConn) readAnswer(r *advResult) {
	m, err := p.cl.Recv()
	if err != nil {
		r.Err = err.Error()
		if err == io.EOF || p.cl.EOF || strings.Contains(err.Error(), "closed") || strings.Contains(err.Error(), "reset") {
			r.Closed = true
			p.dead = true
		} else {
			// unparsable answer: treat the connection as unusable
			p.dead = true
		}
		return
	}
	r.Status = m.Status
	r.Body = m.Body
	if strings.Contains(m.Headers["content-type"], "tlv8") && m.Status == 200 {
		if t, _, err := ref.TLVDecode(m.Body); err == nil {
			r.TLV = t
		}
	}
	if strings.EqualFold(m.Headers["connection"], "close") {
		p.dead = true
	}
}

func tlvState(t map[byte][]byte) int {
	if v := t[ref.TagState]; len(v) > 0 {
		return int(v[0])
	}
	return -1
}

func tlvErr(t map[byte][]byte) int {
	if v, ok := t[ref.TagError]; ok && len(v) > 0 {
		return int(v[0])
	}
	return 0
}

// reachAfterM3 brings the connection's pair-setup exchange to the state after a valid M3/M4
// (C13: hostile input at every state reachable by a prefix of a correct exchange).
func (aw *advWorld) reachAfterM3(p *peerConn) {
	if p.m3rightOK || !aw.sc.KnowsCode {
		return
	}
	aw.do(p, AdvOp{Conn: p.slot, Kind: "ps-m1"})
	if p.setupClean {
		aw.do(p, AdvOp{Conn: p.slot, Kind: "ps-m3-right"})
	}
	aw.w.Sim.Count("probe.reached_after_m3")
}

// reachVerifyStarted brings the connection's pair-verify exchange to the state after a valid start.
func (aw *advWorld) reachVerifyStarted(p *peerConn) {
	if p.pvStarted {
		return
	}
	aw.do(p, AdvOp{Conn: p.slot, Kind: "pv-m1"})
	aw.w.Sim.Count("probe.reached_verify_started")
}

// reachVerified runs an honest pair-verify on the connection.
func (aw *advWorld) reachVerified(p *peerConn) {
	if aw.verifiedConns[p.conn.ID] || !aw.sc.KnowsKey || aw.sc.Unpaired {
		return
	}
	aw.allowedVerified[p.conn.ID] = true
	if ok, err := aw.honestVerify(p.cl, 1); ok && err == nil {
		aw.verifiedConns[p.conn.ID] = true
		aw.w.Sim.Count("probe.reached_verified")
	}
}

// do executes one op on the slot and returns what was observed.
func (aw *advWorld) do(p *peerConn, op AdvOp) *advResult {
	r := &advResult{Op: op}
	if p.dead || p.cl == nil {
		aw.newSlotConn(p)
		r.Redialed = true
		if aw.sc.PreVerify {
			aw.allowedVerified[p.conn.ID] = true
			if ok, err := aw.honestVerify(p.cl, 0); ok && err == nil {
				aw.verifiedConns[p.conn.ID] = true
				aw.w.Sim.Count("probe.peer_preverified")
			} else if aw.on("C13") {
				aw.violate("wedged-new-connection", "an honest pair-verify on a fresh connection fails: ok=%v err=%v", ok, err)
			}
		}
	}
	sc := aw.sc
	w := aw.w
	p.spell = 0
	if sc.Prop == "C01" && (op.Arg/3)%4 == 1 {
		p.spell = 1 + (op.Arg/12)%3
	}
	if sc.Legit && !aw.legitDone && op.Arg%3 == 0 {
		// a third of the protected requests are timed to overlap with a request of the legitimate
		// controller to the same endpoint (shared per-endpoint state is the place to look)
		if path := map[string]string{"get-acc": "/accessories", "get-chars": "/characteristics", "put-val": "/characteristics", "put-ev": "/characteristics", "pairings-add": "/pairings", "pairings-remove": "/pairings", "pairings-list": "/pairings"}[op.Kind]; path != "" {
			w.StepWhen(p.name, "wait until the legitimate controller is inside "+path, func() bool { return aw.legitInFlight == path || aw.legitDone })
			if w.Sim.InTeardown() {
				return r
			}
			w.Sim.Count("probe.peer_request_overlaps_legit_request_on_same_endpoint")
		}
	}
	firstChar := "1.2"
	if aw.on("C13") && op.Arg%2 == 0 && !p.dead {
		// half of the hostile messages are sent in the protocol state they aim at
		switch {
		case strings.HasPrefix(op.Kind, "ps-m5-"), op.Kind == "fuzz-pair-setup" && op.Arg%4 == 0:
			aw.reachAfterM3(p)
		case strings.HasPrefix(op.Kind, "pv-m3-"), op.Kind == "fuzz-pair-verify" && op.Arg%4 == 0:
			aw.reachVerifyStarted(p)
		case op.Kind == "pairings-add-shortkey", op.Kind == "fuzz-pairings", op.Kind == "fuzz-characteristics", op.Kind == "fuzz-resource":
			if op.Arg%4 == 0 {
				aw.reachVerified(p)
			}
		}
		if p.dead || p.cl == nil {
			aw.newSlotConn(p)
		}
	}
	switch op.Kind {
	case "get-acc":
		p.request("GET", "/accessories", "", nil, r)
	case "path-variant":
		// other spellings of the protected paths and other methods
		paths := []string{"/accessories/", "//accessories", "/./accessories", "/accessories?x=1", "/ACCESSORIES", "/accessories/../accessories", "/characteristics/?id=1.9", "/characteristics?id=1.9&x=%00", "/pairings/", "/resource/", "/accessories#f"}
		methods := []string{"GET", "POST", "PUT", "DELETE", "HEAD", "OPTIONS"}
		m := methods[(op.Arg/16)%len(methods)]
		var body []byte
		if m == "POST" || m == "PUT" {
			body = []byte(`{"characteristics":[{"aid":1,"iid":9,"value":true,"ev":true}]}`)
		}
		if m == "HEAD" {
			m = "GET"
		}
		p.request(m, paths[op.Arg%len(paths)], ref.CTypeJSON, body, r)
	case "get-chars":
		ids := []string{"1.2", "1.3", "1.4", "1.5", "1.6", "1.7", "1.9", "2.9", "1.10", "7.7"}
		k := 1 + op.Arg%4
		var sel []string
		for i := 0; i < k; i++ {
			sel = append(sel, ids[(op.Arg+i*3)%len(ids)])
		}
		p.request("GET", "/characteristics?id="+strings.Join(sel, ","), "", nil, r)
	case "put-val":
		// aid 1: switch "on" is iid 9 in BuildAccessories (info service 1..7, switch service 8, on 9)
		body := fmt.Sprintf(`{"characteristics":[{"aid":1,"iid":9,"value":%v},{"aid":1,"iid":2,"value":true}]}`, op.Arg%2 == 0)
		p.request("PUT", "/characteristics", ref.CTypeJSON, []byte(body), r)
	case "put-ev":
		p.request("PUT", "/characteristics", ref.CTypeJSON, []byte(`{"characteristics":[{"aid":1,"iid":9,"ev":true}]}`), r)
	case "pairings-add":
		if aw.verifiedConns[p.conn.ID] {
			// a controller that verified with a stored key may manage pairings
			aw.allowedStore[aw.peerID] = aw.peerKP.Pub
		}
		body := ref.TLVEncode([]ref.TLV{{Tag: ref.TagState, Val: []byte{1}}, {Tag: ref.TagMethod, Val: []byte{3}}, {Tag: ref.TagIdentifier, Val: []byte(aw.peerID)}, {Tag: ref.TagPublicKey, Val: aw.peerKP.Pub}, {Tag: ref.TagPermission, Val: []byte{1}}})
		p.post("/pairings", ref.CTypeTLV, body, r)
	case "pairings-remove":
		victim := aw.legitID
		if !sc.Legit && len(aw.otherIDs) > 0 {
			victim = aw.otherIDs[0]
		}
		if aw.verifiedConns[p.conn.ID] {
			aw.removedOK[victim] = true
			delete(aw.requiredStore, victim)
		}
		body := ref.TLVEncode([]ref.TLV{{Tag: ref.TagState, Val: []byte{1}}, {Tag: ref.TagMethod, Val: []byte{4}}, {Tag: ref.TagIdentifier, Val: []byte(victim)}})
		p.post("/pairings", ref.CTypeTLV, body, r)
	case "pairings-list":
		body := ref.TLVEncode([]ref.TLV{{Tag: ref.TagState, Val: []byte{1}}, {Tag: ref.TagMethod, Val: []byte{5}}})
		p.post("/pairings", ref.CTypeTLV, body, r)
	case "resource":
		p.post("/resource", ref.CTypeJSON, []byte(`{"resource-type":"image","image-width":4,"image-height":4}`), r)
	case "identify":
		p.post("/identify", "", nil, r)

	// ---- pair-setup ----
	case "ps-m1":
		p.post("/pair-setup", ref.CTypeTLV, ref.TLVEncode(ref.SetupM1()), r)
		p.srp, p.m3rightOK = nil, false
		p.salt, p.B = nil, nil
		p.setupClean = false
		if r.TLV != nil && tlvState(r.TLV) == 2 && tlvErr(r.TLV) == 0 {
			p.salt, p.B = r.TLV[ref.TagSalt], r.TLV[ref.TagPublicKey]
			p.setupClean = true
		}
	case "ps-m3-right", "ps-m3-wrong", "ps-m3-a0", "ps-m3-aN", "ps-m3-noA":
		var sec [32]byte
		w.Rand.Read(sec[:])
		srp := ref.NewSRPClient(sec)
		A := srp.PublicA()
		var proof []byte
		code := fmtPin(sc.Pin)
		right := op.Kind == "ps-m3-right" && sc.KnowsCode
		if !right {
			code = "111-22-333"
			if code == fmtPin(sc.Pin) {
				code = "111-22-334"
			}
		}
		if p.salt != nil {
			proof, _ = srp.Proof(p.salt, p.B, code)
		}
		if proof == nil {
			proof = make([]byte, 64)
			w.Rand.Read(proof)
		}
		items := []ref.TLV{{Tag: ref.TagState, Val: []byte{3}}}
		switch op.Kind {
		case "ps-m3-a0":
			A = make([]byte, 384)
		case "ps-m3-aN":
			A = ref.SRPModulus().Bytes()
		}
		if op.Kind != "ps-m3-noA" {
			items = append(items, ref.TLV{Tag: ref.TagPublicKey, Val: A})
		}
		items = append(items, ref.TLV{Tag: ref.TagProof, Val: proof})
		wasClean := p.setupClean
		p.post("/pair-setup", ref.CTypeTLV, ref.TLVEncode(items), r)
		p.m3rightOK = false
		p.setupClean = false
		p.srp = nil
		if right && wasClean && r.TLV != nil && tlvState(r.TLV) == 4 && tlvErr(r.TLV) == 0 && srp.VerifyM2(r.TLV[ref.TagProof]) {
			p.m3rightOK = true
			p.srp = srp
		}
		// a failing M3 must not carry a proof or encrypted data
		if aw.on("C02") && !right && r.TLV != nil && (len(r.TLV[ref.TagProof]) > 0 || len(r.TLV[ref.TagEncrypted]) > 0) {
			aw.violate("proof-for-wrong-m3", "the answer to a verify request without a valid proof carries a proof / encrypted data")
		}
	case "ps-degenerate-chain":
		// the whole attack in one go: start, a verify request that needs no setup code, the key
		// exchange under the key that follows from it
		aw.do(p, AdvOp{Conn: p.slot, Kind: "ps-m1"})
		m3 := "ps-m3-a0-pubproof"
		if op.Arg%5 == 4 {
			m3 = []string{"ps-m3-longA", "ps-m3-badprooflen", "ps-m3-a0", "ps-m3-noA"}[(op.Arg/5)%4]
		}
		aw.do(p, AdvOp{Conn: p.slot, Kind: m3, Arg: op.Arg})
		m5 := AdvOp{Conn: p.slot, Kind: "ps-m5-weak", Arg: 0}
		if m3 != "ps-m3-a0-pubproof" {
			m5 = AdvOp{Conn: p.slot, Kind: []string{"ps-m5-zero", "ps-m5-nilk", "ps-m5-weak"}[(op.Arg/20)%3], Arg: 1}
		}
		w.Sim.Count("probe.degenerate_chain")
		return aw.do(p, m5)
	case "ps-replay-honest-setup":
		// an observer replays the legitimate controller's whole recorded pair-setup (start, verify
		// request, key exchange) byte for byte on its own connection: the accessory's side of the
		// exchange is fresh, so neither the proof nor the key exchange may be accepted again
		if len(aw.capturedSetup) != 3 {
			return aw.do(p, AdvOp{Conn: p.slot, Kind: "ps-m5-replay", Arg: op.Arg})
		}
		w.Sim.Count("probe.recorded_pair_setup_replayed")
		for i, body := range aw.capturedSetup {
			*r = advResult{Op: op}
			p.post("/pair-setup", ref.CTypeTLV, body, r)
			if p.dead {
				break
			}
			if i == 1 && aw.on("C02") && r.TLV != nil && tlvErr(r.TLV) == 0 && len(r.TLV[ref.TagProof]) > 0 {
				aw.violate("proof-for-replayed-m3", "the recorded verify request of another exchange, replayed on a new connection, was answered with the accessory's proof")
			}
			if i == 2 && aw.on("C02") && r.TLV != nil && tlvErr(r.TLV) == 0 && len(r.TLV[ref.TagEncrypted]) > 0 {
				aw.violate("m6-for-forged-m5", "the recorded key exchange of another exchange, replayed on a new connection, was answered with the accessory's encrypted key-exchange response")
			}
		}
		p.m3rightOK, p.setupClean, p.srp, p.salt, p.B = false, false, nil, nil, nil
	case "ps-twin-race":
		// A peer that binds two sockets to one local ip:port and connects them to two addresses of a
		// multi-homed accessory owns two connections from one remote address, served by two
		// goroutines. If the accessory files sessions (and pair-setup controllers) under the remote
		// address only, they share one controller and a key exchange can arrive while a verify request
		// is still being processed (hc did until e93800f).
		addr := p.conn.Client().LocalAddr().String()
		c2 := w.Sim.DialTo(w.Sim.Listener, addr, "10.0.1.1:51826")
		cl2 := &ref.Client{Conn: c2.Client(), Rand: w.Rand}
		name := p.name
		cl2.Yield = func(what string) { w.Sim.Park("step", name, c2.ID, " "+what, nil) }
		p.conns = append(p.conns, c2)
		w.Sim.Count("fault.twin_connection_same_remote_address")
		// the twin is served once it has answered something
		if err := cl2.Send(ref.Request("GET", "/accessories", "", nil)); err == nil {
			cl2.Recv()
		}
		aw.do(p, AdvOp{Conn: p.slot, Kind: "ps-m1"})
		if p.dead || p.salt == nil {
			cl2.Conn.Close()
			p.cl.Conn.Close()
			p.dead = true
			return r
		}
		// verify request with a wrong proof on the first connection; its answer is not awaited
		var sec [32]byte
		w.Rand.Read(sec[:])
		srp := ref.NewSRPClient(sec)
		code := "111-22-333"
		if code == fmtPin(sc.Pin) {
			code = "111-22-334"
		}
		proof, _ := srp.Proof(p.salt, p.B, code)
		m3 := ref.TLVEncode([]ref.TLV{{Tag: ref.TagState, Val: []byte{3}}, {Tag: ref.TagPublicKey, Val: srp.PublicA()}, {Tag: ref.TagProof, Val: proof}})
		if err := p.cl.Send(ref.Request("POST", "/pair-setup", ref.CTypeTLV, m3)); err != nil {
			r.Err = err.Error()
		}
		// meanwhile the key exchange under a key everybody can compute, on the twin
		id, kp := aw.peerID, aw.peerKP
		var zero [32]byte
		var enc []byte
		switch op.Arg % 3 {
		case 0:
			enc = ref.SetupM5PayloadWith(zero, nil, id, kp.Pub, kp.Priv)
		case 1:
			enc = ref.SetupM5Payload(nil, id, kp)
		default:
			enc = ref.SetupM5Payload(ref.H512(nil), id, kp)
		}
		if err := cl2.Send(ref.Request("POST", "/pair-setup", ref.CTypeTLV, ref.TLVEncode([]ref.TLV{{Tag: ref.TagState, Val: []byte{5}}, {Tag: ref.TagEncrypted, Val: enc}}))); err == nil {
			if m, err := cl2.Recv(); err == nil && m.Status == 200 {
				if t, _, err := ref.TLVDecode(m.Body); err == nil && aw.on("C02") && tlvErr(t) == 0 && len(t[ref.TagEncrypted]) > 0 {
					aw.violate("m6-for-forged-m5", "a key-exchange request under a key everybody can compute, sent on a second connection from the same remote address while a verify request with a wrong proof was being processed, was answered with the accessory's encrypted key-exchange response")
				}
			}
		}
		if r.Err == "" {
			r.Sent = true
			p.readAnswer(r)
		}
		// both connections are given up; the slot reconnects from a new port
		cl2.Conn.Close()
		p.cl.Conn.Close()
		p.dead = true
		p.srp, p.salt, p.B, p.m3rightOK, p.setupClean = nil, nil, nil, false, false
	case "ps-m3-a0-pubproof", "ps-m3-longA", "ps-m3-badprooflen":
		// verify requests a peer without the setup code can build from public values only
		items := []ref.TLV{{Tag: ref.TagState, Val: []byte{3}}}
		var A, proof []byte
		switch op.Kind {
		case "ps-m3-a0-pubproof":
			// A = 0 (mod N): the shared secret does not depend on the setup code any more;
			// the proof is computed over the session key a sloppy server would end up with
			var abytes []byte // what the server hashes for A
			switch op.Arg % 4 {
			case 0:
				A, abytes = []byte{0}, nil
			case 1:
				A, abytes = make([]byte, 384), nil
			case 2:
				A = ref.SRPModulus().Bytes()
				abytes = A
			default:
				n2 := ref.SRPModulus()
				n2.Add(n2, ref.SRPModulus())
				A = n2.Bytes()
				abytes = A
			}
			var K []byte
			if (op.Arg/4)%2 == 1 {
				K = ref.H512(nil) // H(S) with S = 0
			}
			p.weakK, p.weakSet = K, true
			salt, B := p.salt, p.B
			proof = ref.SRPProofPublic(salt, abytes, B, K)
		case "ps-m3-longA":
			A = bytes.Repeat([]byte{0x7f}, 385+op.Arg%200)
			proof = make([]byte, 64)
			w.Rand.Read(proof)
			p.weakK, p.weakSet = nil, true
		case "ps-m3-badprooflen":
			var sec [32]byte
			w.Rand.Read(sec[:])
			A = ref.NewSRPClient(sec).PublicA()
			proof = make([]byte, []int{0, 1, 63, 65, 128}[op.Arg%5])
			w.Rand.Read(proof)
			p.weakK, p.weakSet = nil, true
		}
		items = append(items, ref.TLV{Tag: ref.TagPublicKey, Val: A}, ref.TLV{Tag: ref.TagProof, Val: proof})
		p.post("/pair-setup", ref.CTypeTLV, ref.TLVEncode(items), r)
		p.m3rightOK, p.setupClean, p.srp = false, false, nil
		if aw.on("C02") && r.TLV != nil && (len(r.TLV[ref.TagProof]) > 0 || len(r.TLV[ref.TagEncrypted]) > 0) {
			aw.violate("proof-for-wrong-m3", "the answer to a verify request built without the setup code (%s) carries a proof / encrypted data", op.Kind)
		}
	case "reuse-addr":
		// the controller goes away and comes back from the same address and port (a reboot that
		// reuses the source port) before the accessory has noticed that the old connection ended
		addr := p.conn.Client().LocalAddr().String()
		p.cl.Conn.Close()
		c := w.Sim.Dial(w.Sim.Listener, addr)
		cl := &ref.Client{Conn: c.Client(), Rand: w.Rand}
		name := p.name
		cl.Yield = func(what string) { w.Sim.Park("step", name, c.ID, " "+what, nil) }
		p.cl, p.conn = cl, c
		p.conns = append(p.conns, c)
		p.dead = false
		p.srp, p.salt, p.B, p.m3rightOK, p.setupClean, p.pvStarted, p.pvHave = nil, nil, nil, false, false, false, false
		w.Sim.Count("fault.address_reuse")
		if sc.KnowsKey && !sc.Unpaired {
			aw.allowedVerified[c.ID] = true
			ok, err := aw.honestVerify(cl, 0)
			if err != nil || !ok {
				if aw.on("C13") {
					aw.violate("wedged-after-address-reuse", "a correct pair-verify on a new connection from the address of a connection that just ended fails: ok=%v err=%v", ok, err)
				}
				p.dead = true
				return r
			}
			aw.verifiedConns[c.ID] = true
			p.request("GET", "/accessories", "", nil, r)
			if aw.on("C13") && r.Status != 200 {
				aw.violate("wedged-after-address-reuse", "GET /accessories after a correct pair-verify on the reused address fails: status %d err %s", r.Status, r.Err)
			}
		} else {
			p.request("GET", "/accessories", "", nil, r)
		}
	case "ps-m5-badltpk":
		// a correctly sealed key exchange whose long-term public key has a wrong length
		K := make([]byte, 64)
		if p.srp != nil && p.m3rightOK {
			K = p.srp.K
		}
		encKey := ref.HKDF(K, "Pair-Setup-Encrypt-Salt", "Pair-Setup-Encrypt-Info")
		n := op.Arg % 70
		if n == 32 {
			n = 31
		}
		ltpk := bytes.Repeat([]byte{0x42}, n)
		sig := make([]byte, 64)
		w.Rand.Read(sig)
		sub := ref.TLVEncode([]ref.TLV{{Tag: ref.TagIdentifier, Val: []byte("badkey-" + fmt.Sprint(op.Arg))}, {Tag: ref.TagPublicKey, Val: ltpk}, {Tag: ref.TagSignature, Val: sig}})
		enc := ref.Seal(encKey, []byte("PS-Msg05"), sub, nil)
		p.post("/pair-setup", ref.CTypeTLV, ref.TLVEncode([]ref.TLV{{Tag: ref.TagState, Val: []byte{5}}, {Tag: ref.TagEncrypted, Val: enc}}), r)
		p.m3rightOK, p.setupClean, p.srp = false, false, nil
	case "ps-m5-longname":
		// a correctly sealed and signed key exchange whose identifier is legal (one TLV item)
		// but long: 100..255 bytes. Whether the accessory stores it or not, it must stay usable.
		K := make([]byte, 64)
		if p.srp != nil && p.m3rightOK {
			K = p.srp.K
			w.Sim.Count("probe.long_identifier_after_right_proof")
		}
		encKey := ref.HKDF(K, "Pair-Setup-Encrypt-Salt", "Pair-Setup-Encrypt-Info")
		name := fmt.Sprintf("long-%d-", op.Arg)
		name += strings.Repeat("n", 100+op.Arg%156-len(name))
		enc := ref.SetupM5PayloadWith(encKey, K, name, aw.peerKP.Pub, aw.peerKP.Priv)
		p.post("/pair-setup", ref.CTypeTLV, ref.TLVEncode([]ref.TLV{{Tag: ref.TagState, Val: []byte{5}}, {Tag: ref.TagEncrypted, Val: enc}}), r)
		p.m3rightOK, p.setupClean, p.srp = false, false, nil
	case "pairings-add-shortkey":
		n := 1 + op.Arg%60
		if n == 32 {
			n = 33
		}
		body := ref.TLVEncode([]ref.TLV{{Tag: ref.TagState, Val: []byte{1}}, {Tag: ref.TagMethod, Val: []byte{3}}, {Tag: ref.TagIdentifier, Val: []byte("shortkey-ctl")}, {Tag: ref.TagPublicKey, Val: bytes.Repeat([]byte{7}, n)}, {Tag: ref.TagPermission, Val: []byte{0}}})
		p.post("/pairings", ref.CTypeTLV, body, r)
	case "pv-m3-shortkey-name":
		// a correctly sealed finish request naming the controller that was stored with a malformed key
		sig := make([]byte, 64)
		w.Rand.Read(sig)
		sub := ref.TLVEncode([]ref.TLV{{Tag: ref.TagIdentifier, Val: []byte("shortkey-ctl")}, {Tag: ref.TagSignature, Val: sig}})
		items := []ref.TLV{{Tag: ref.TagState, Val: []byte{3}}, {Tag: ref.TagEncrypted, Val: ref.Seal(p.cl.VerifyKey(), []byte("PV-Msg03"), sub, nil)}}
		p.post("/pair-verify", ref.CTypeTLV, ref.TLVEncode(items), r)
		p.pvStarted = false
	case "ps-m5-weak":
		// key exchange under the key that follows from the degenerate verify request
		id, kp := aw.peerID, aw.peerKP
		var enc []byte
		switch op.Arg % 3 {
		case 0:
			enc = ref.SetupM5Payload(p.weakK, id, kp)
		case 1:
			var zero [32]byte
			enc = ref.SetupM5PayloadWith(zero, p.weakK, id, kp.Pub, kp.Priv)
		default:
			enc = ref.SetupM5Payload(ref.H512(nil), id, kp)
		}
		p.post("/pair-setup", ref.CTypeTLV, ref.TLVEncode([]ref.TLV{{Tag: ref.TagState, Val: []byte{5}}, {Tag: ref.TagEncrypted, Val: enc}}), r)
		p.m3rightOK, p.setupClean, p.srp = false, false, nil
		if aw.on("C02") && r.TLV != nil && tlvErr(r.TLV) == 0 && len(r.TLV[ref.TagEncrypted]) > 0 {
			aw.violate("m6-for-forged-m5", "a key-exchange request under a degenerate key (%s) was answered with the accessory's encrypted key-exchange response", op.Kind)
		}
	case "ps-m5-genuine", "ps-m5-tampered", "ps-m5-short", "ps-m5-zero", "ps-m5-nilk", "ps-m5-random", "ps-m5-othersig", "ps-m5-othername", "ps-m5-replay":
		var enc []byte
		var zero [32]byte
		id, kp := aw.peerID, aw.peerKP
		var K []byte
		if p.srp != nil {
			K = p.srp.K
		}
		genuine := false
		switch op.Kind {
		case "ps-m5-genuine":
			if p.m3rightOK && K != nil {
				enc = ref.SetupM5Payload(K, id, kp)
				genuine = true
			} else {
				// no completed proof: best effort under a guessed key
				var g [64]byte
				w.Rand.Read(g[:])
				enc = ref.SetupM5Payload(g[:], id, kp)
			}
		case "ps-m5-tampered":
			if K == nil {
				K = make([]byte, 64)
			}
			enc = ref.SetupM5Payload(K, id, kp)
			enc[op.Arg%len(enc)] ^= 1 << (op.Arg % 8)
		case "ps-m5-short":
			enc = bytes.Repeat([]byte{1}, op.Arg%16)
		case "ps-m5-zero":
			// all-zero session key, signature material from an empty SRP key
			enc = ref.SetupM5PayloadWith(zero, nil, id, kp.Pub, kp.Priv)
		case "ps-m5-nilk":
			enc = ref.SetupM5Payload(nil, id, kp)
		case "ps-m5-random":
			var k [64]byte
			w.Rand.Read(k[:])
			enc = ref.SetupM5Payload(k[:], id, kp)
		case "ps-m5-othersig":
			okp := aw.w.Keypair()
			if K == nil {
				K = make([]byte, 64)
			}
			encKey := ref.HKDF(K, "Pair-Setup-Encrypt-Salt", "Pair-Setup-Encrypt-Info")
			enc = ref.SetupM5PayloadWith(encKey, K, id, kp.Pub, okp.Priv)
		case "ps-m5-othername":
			if K == nil {
				K = make([]byte, 64)
			}
			encKey := ref.HKDF(K, "Pair-Setup-Encrypt-Salt", "Pair-Setup-Encrypt-Info")
			// signature made over another name than the one delivered
			x := ref.HKDF(K, "Pair-Setup-Controller-Sign-Salt", "Pair-Setup-Controller-Sign-Info")
			mat := append(append(append([]byte{}, x[:]...), "someone-else"...), kp.Pub...)
			sig := ed25519.Sign(kp.Priv, mat)
			sub := ref.TLVEncode([]ref.TLV{{Tag: ref.TagIdentifier, Val: []byte(id)}, {Tag: ref.TagPublicKey, Val: kp.Pub}, {Tag: ref.TagSignature, Val: sig}})
			enc = ref.Seal(encKey, []byte("PS-Msg05"), sub, nil)
		case "ps-m5-replay":
			enc = aw.capturedM5
			if enc == nil {
				enc = bytes.Repeat([]byte{9}, 40)
			}
		}
		if genuine {
			aw.allowedStore[id] = kp.Pub
		}
		r.Genuine = genuine
		p.post("/pair-setup", ref.CTypeTLV, ref.TLVEncode([]ref.TLV{{Tag: ref.TagState, Val: []byte{5}}, {Tag: ref.TagEncrypted, Val: enc}}), r)
		p.m3rightOK, p.setupClean, p.srp = false, false, nil
		if genuine && r.TLV != nil && tlvState(r.TLV) == 6 && tlvErr(r.TLV) == 0 {
			aw.requiredStore[id] = kp.Pub
		}
		if aw.on("C02") && !genuine && r.TLV != nil && tlvErr(r.TLV) == 0 && len(r.TLV[ref.TagEncrypted]) > 0 {
			aw.violate("m6-for-forged-m5", "a key-exchange request that is not genuine (%s) was answered with the accessory's encrypted key-exchange response", op.Kind)
		}
	case "ps-unknown-state":
		p.post("/pair-setup", ref.CTypeTLV, ref.TLVEncode([]ref.TLV{{Tag: ref.TagState, Val: []byte{byte(7 + op.Arg%200)}}}), r)
	case "ps-unknown-method":
		p.post("/pair-setup", ref.CTypeTLV, ref.TLVEncode([]ref.TLV{{Tag: ref.TagState, Val: []byte{1}}, {Tag: ref.TagMethod, Val: []byte{byte(1 + op.Arg%200)}}}), r)

	// ---- pair-verify ----
	case "pv-m1":
		if p.pvHave {
			p.pvPrev.cPub, p.pvPrev.aPub = p.cl.VerifyPub()
		}
		p.post("/pair-verify", ref.CTypeTLV, ref.TLVEncode(p.cl.VerifyM1()), r)
		p.pvStarted = false
		if r.TLV != nil && tlvState(r.TLV) == 2 && tlvErr(r.TLV) == 0 {
			if _, err := p.cl.VerifyAbsorbM2(r.TLV, w.AccLTPK); err == nil {
				p.pvStarted = true
				p.pvHave = true
			} else if aw.sc.Prop == "C03" || aw.sc.Prop == "C01" {
				// not judged here (C04 covers the accessory's proofs)
			}
		}
	case "pv-m1-short":
		k := make([]byte, op.Arg%32)
		if op.Arg%5 == 0 {
			k = make([]byte, 33+op.Arg%30)
		}
		p.post("/pair-verify", ref.CTypeTLV, ref.TLVEncode([]ref.TLV{{Tag: ref.TagState, Val: []byte{1}}, {Tag: ref.TagPublicKey, Val: k}}), r)
		p.pvStarted = false
	case "pv-unknown-state":
		p.post("/pair-verify", ref.CTypeTLV, ref.TLVEncode([]ref.TLV{{Tag: ref.TagState, Val: []byte{byte(5 + op.Arg%200)}}}), r)
	case "pv-m3-abandon-reuse":
		// a genuine finish request is sent, then the connection is dropped without waiting for the
		// answer and a new connection comes from the same address and port while the handler may still run
		if !p.pvStarted || !sc.KnowsKey || aw.adminSent {
			p.request("GET", "/accessories", "", nil, r)
			return r
		}
		items := p.cl.VerifyM3With(p.cl.VerifyKey(), aw.pairedID, aw.pairedKP.Priv, nil)
		aw.allowedVerified[p.conn.ID] = true
		// the request arrives in two parts, so that the handler is already running (it waits for the
		// rest of the body) when the connection is replaced
		reqBytes := ref.Request("POST", "/pair-verify", ref.CTypeTLV, ref.TLVEncode(items))
		cut := len(reqBytes) - 20
		if err := p.cl.Send(reqBytes[:cut]); err != nil {
			r.Err = err.Error()
			return r
		}
		oldc := p.conn
		w.StepWhen(p.name, "abandon: rest of the finish request, close, reconnect", func() bool { return !oldc.Pending(0) && oldc.Unread(0) == 0 })
		if err := p.cl.Send(reqBytes[cut:]); err != nil {
			r.Err = err.Error()
			return r
		}
		addr := p.conn.Client().LocalAddr().String()
		p.cl.Conn.Close()
		c := w.Sim.Dial(w.Sim.Listener, addr)
		cl := &ref.Client{Conn: c.Client(), Rand: w.Rand}
		name := p.name
		cl.Yield = func(what string) { w.Sim.Park("step", name, c.ID, " "+what, nil) }
		p.cl, p.conn = cl, c
		p.conns = append(p.conns, c)
		p.dead = false
		p.srp, p.salt, p.B, p.m3rightOK, p.setupClean, p.pvStarted, p.pvHave = nil, nil, nil, false, false, false, false
		w.Sim.Count("fault.address_reuse_mid_handler")
		// the new connection never ran pair-verify: nothing protected may be served to it
		op2 := op
		op2.Kind = "get-acc"
		r.Op = op2
		p.cl.Yield("GET /accessories")
		p.request("GET", "/accessories", "", nil, r)
	case "pv-m3-genuine", "pv-m3-genuine-new", "pv-m3-wrongkey", "pv-m3-unknown", "pv-m3-self", "pv-m3-stale", "pv-m3-reordered", "pv-m3-replay", "pv-m3-wrongseal", "pv-m3-short", "pv-m3-badtlv":
		key := p.cl.VerifyKey()
		cPub, aPub := p.cl.VerifyPub()
		var items []ref.TLV
		genuine := false
		unsure := false // the stored key may be changed by the legitimate controller while the request is in flight
		kind := 0
		switch op.Kind {
		case "pv-m3-genuine":
			if sc.KnowsKey {
				items = p.cl.VerifyM3With(key, aw.pairedID, aw.pairedKP.Priv, nil)
				// valid unless the legitimate controller's change of this pairing was complete before the
				// request was sent; certain only once the answer is in and the change has not even begun
				unsure = p.pvStarted && !aw.adminDone
				kind = 1
			} else {
				items = p.cl.VerifyM3With(key, aw.pairedID, aw.peerKP.Priv, nil)
			}
		case "pv-m3-genuine-new":
			// signed with the key the legitimate controller stores for "peer-paired" in a rekey
			items = p.cl.VerifyM3With(key, aw.pairedID, aw.pairedKP2.Priv, nil)
			genuine = p.pvStarted && sc.LegitAdmin == "rekey" && aw.adminDone
			unsure = p.pvStarted && sc.LegitAdmin == "rekey" && !aw.adminDone
			kind = 2
		case "pv-m3-wrongkey":
			victim := aw.pairedID
			if sc.Legit {
				victim = aw.legitID
			}
			items = p.cl.VerifyM3With(key, victim, aw.peerKP.Priv, nil)
		case "pv-m3-unknown":
			items = p.cl.VerifyM3With(key, "nobody-"+fmt.Sprint(op.Arg), aw.peerKP.Priv, nil)
		case "pv-m3-self":
			items = p.cl.VerifyM3With(key, w.AccID, aw.peerKP.Priv, nil)
		case "pv-m3-stale":
			// signature over the material of the previous exchange on this connection
			signer := aw.peerKP.Priv
			id := aw.pairedID
			if sc.KnowsKey {
				signer = aw.pairedKP.Priv
			}
			mat := append(append(append([]byte{}, p.pvPrev.cPub[:]...), id...), p.pvPrev.aPub[:]...)
			items = p.cl.VerifyM3With(key, id, signer, mat)
		case "pv-m3-reordered":
			signer := aw.peerKP.Priv
			id := aw.pairedID
			if sc.KnowsKey {
				signer = aw.pairedKP.Priv
			}
			mat := append(append(append([]byte{}, aPub[:]...), id...), cPub[:]...)
			items = p.cl.VerifyM3With(key, id, signer, mat)
		case "pv-m3-replay":
			if aw.capturedPVM3 != nil {
				r.Sent = false
				p.post("/pair-verify", ref.CTypeTLV, aw.capturedPVM3, r)
				p.pvStarted = false
				return r
			}
			var k [32]byte
			w.Rand.Read(k[:])
			items = p.cl.VerifyM3With(k, aw.pairedID, aw.peerKP.Priv, nil)
		case "pv-m3-wrongseal":
			var k [32]byte
			w.Rand.Read(k[:])
			signer := aw.peerKP.Priv
			if sc.KnowsKey {
				signer = aw.pairedKP.Priv
			}
			items = p.cl.VerifyM3With(k, aw.pairedID, signer, nil)
		case "pv-m3-short":
			items = []ref.TLV{{Tag: ref.TagState, Val: []byte{3}}, {Tag: ref.TagEncrypted, Val: bytes.Repeat([]byte{2}, op.Arg%16)}}
		case "pv-m3-badtlv":
			sub := []byte{ref.TagIdentifier, 200, 1, 2, 3}
			items = []ref.TLV{{Tag: ref.TagState, Val: []byte{3}}, {Tag: ref.TagEncrypted, Val: ref.Seal(key, []byte("PV-Msg03"), sub, nil)}}
		}
		r.Genuine = genuine
		if genuine || unsure {
			aw.allowedVerified[p.conn.ID] = true
		}
		p.post("/pair-verify", ref.CTypeTLV, ref.TLVEncode(items), r)
		p.pvStarted = false
		if unsure {
			// now that the answer is in: did the change of the pairing begin at all while the request was in flight?
			switch {
			case kind == 1 && !aw.adminSent:
				genuine, unsure = true, false // old key, nothing changed yet: certainly valid
			case kind == 2 && !aw.adminSent:
				genuine, unsure = false, false // new key, the rekey had not even begun: certainly invalid
			}
		}
		if (genuine || unsure) && r.TLV != nil && tlvState(r.TLV) == 4 && tlvErr(r.TLV) == 0 {
			aw.verifiedConns[p.conn.ID] = true
			p.cl.StartSession(p.cl.Shared)
		}
		if aw.on("C03", "C01") && !genuine && !unsure && r.Status == 200 && r.TLV != nil && tlvErr(r.TLV) == 0 && tlvState(r.TLV) == 4 {
			aw.violate("finish-accepted", "a finish request that is not genuine (%s) was answered with state 4 and no error", op.Kind)
		}

	// ---- ciphertext under keys the peer can derive itself ----
	case "enc-get-own", "enc-get-zero", "enc-get-random":
		if aw.verifiedConns[p.conn.ID] {
			// legitimately verified (C03 explorer): a normal encrypted request
			p.request("GET", "/accessories", "", nil, r)
			return r
		}
		var shared [32]byte
		switch op.Kind {
		case "enc-get-own":
			shared = p.cl.Shared
		case "enc-get-random":
			w.Rand.Read(shared[:])
		}
		_, c2a := ref.SessionKeys(shared)
		var ctr uint64
		wire := ref.FrameSeal(c2a, &ctr, ref.Request("GET", "/accessories", "", nil))
		if err := p.cl.SendRaw(wire); err != nil {
			r.Err = err.Error()
			return r
		}
		r.Sent = true
		aw.readCipherAnswer(p, shared, r)
	case "enc-replay-L":
		// replay the legitimate controller's own encrypted bytes on this connection
		var lc *core.Conn
		if aw.legitConn >= 0 && aw.legitConn < len(w.Sim.Conns) {
			lc = w.Sim.Conns[aw.legitConn]
		}
		var wire []byte
		if lc != nil {
			sent := lc.Sent[0]
			if i := bytes.LastIndex(sent, []byte("\r\n\r\n")); i >= 0 {
				// everything after the last plaintext request (the verify finish) is ciphertext
				j := i + 4
				for j < len(sent) && len(sent)-j > 0 && sent[j] != 0 && j-i-4 < 400 && !looksLikeFrame(sent[j:]) {
					j++
				}
				wire = sent[j:]
			}
		}
		if len(wire) == 0 {
			wire = bytes.Repeat([]byte{0x21, 0x00, 0x55}, 20)
		}
		if err := p.cl.SendRaw(wire); err != nil {
			r.Err = err.Error()
			return r
		}
		r.Sent = true
		aw.readCipherAnswer(p, p.cl.Shared, r)
	case "replay-legit-handshake":
		// everything an on-path observer recorded of the legitimate controller's connection - verify start,
		// verify finish, encrypted requests - is sent again on a fresh connection
		if aw.capturedPVM1 == nil || aw.capturedPVM3 == nil {
			p.request("GET", "/accessories", "", nil, r)
			return r
		}
		aw.newSlotConn(p)
		w.Sim.Count("probe.replayed_handshake")
		p.post("/pair-verify", ref.CTypeTLV, aw.capturedPVM1, r)
		r2 := &advResult{Op: op}
		if !p.dead {
			p.post("/pair-verify", ref.CTypeTLV, aw.capturedPVM3, r2)
			if aw.on("C03", "C01") && r2.TLV != nil && tlvState(r2.TLV) == 4 && tlvErr(r2.TLV) == 0 {
				aw.violate("finish-accepted", "the legitimate controller's recorded start and finish requests, replayed on a new connection, were accepted")
			}
		}
		if !p.dead {
			return aw.do(p, AdvOp{Conn: p.slot, Kind: "enc-replay-L", Arg: op.Arg})
		}
		return r2
	case "plain-after":
		// a plaintext request after whatever happened before on this connection
		p.cl.Enc = p.cl.Enc && aw.verifiedConns[p.conn.ID]
		p.request("GET", "/characteristics?id="+firstChar, "", nil, r)

	case "stall-partial-body":
		// a request whose announced body never arrives in full: the peer goes silent without
		// closing and carries on from a new connection. Nobody else may have to wait for it.
		paths := []string{"/pair-setup", "/pair-verify", "/pairings", "/characteristics", "/resource", "/identify"}
		path := paths[op.Arg%len(paths)]
		method, ctype := "POST", ref.CTypeTLV
		if path == "/characteristics" {
			method, ctype = "PUT", ref.CTypeJSON
		}
		part := []byte{0x06}
		if op.Arg%2 == 1 {
			part = nil
		}
		head := fmt.Sprintf("%s %s HTTP/1.1\r\nHost: acc.local\r\nContent-Type: %s\r\nContent-Length: %d\r\n\r\n", method, path, ctype, 6+op.Arg%40)
		if err := p.cl.Send(append([]byte(head), part...)); err != nil {
			r.Err = err.Error()
		}
		w.Sim.Count("fault.silent_peer_with_incomplete_request")
		w.StepWhen(p.name, "silent: wait until the accessory has read what was sent", func() bool { return !p.conn.Pending(0) && p.conn.Unread(0) == 0 })
		// the connection stays open and is never used again
		p.cl = nil
		p.srp, p.salt, p.B, p.m3rightOK, p.setupClean, p.pvStarted, p.pvHave = nil, nil, nil, false, false, false, false
	default:
		if strings.HasPrefix(op.Kind, "fuzz-") {
			path := "/" + strings.TrimPrefix(op.Kind, "fuzz-")
			method := "POST"
			ctype := ref.CTypeTLV
			switch path {
			case "/characteristics":
				method, ctype = "PUT", ref.CTypeJSON
				if op.Arg%4 == 0 {
					method = "GET"
					q := op.Body
					if len(q) > 120 {
						q = q[:120]
					}
					path += "?id=" + url.QueryEscape(q)
				}
			case "/resource":
				ctype = ref.CTypeJSON
			case "/accessories":
				method = []string{"GET", "POST", "PUT", "DELETE"}[op.Arg%4]
			}
			var body []byte
			if method != "GET" {
				body = []byte(op.Body)
			}
			p.request(method, path, ctype, body, r)
		}
	}
	return r
}

func looksLikeFrame(b []byte) bool {
	if len(b) < 18 {
		return false
	}
	n := int(b[0]) | int(b[1])<<8
	return n <= 1024 && len(b) >= n+18
}

// readCipherAnswer reads whatever the server answers to a ciphertext request and tries
// both interpretations: plaintext HTTP, and frames under the key the peer derived.
func (aw *advWorld) readCipherAnswer(p *peerConn, shared [32]byte, r *advResult) {
	a2c, _ := ref.SessionKeys(shared)
	op := ref.FrameOpener{Key: a2c}
	var raw, plain []byte
	buf := make([]byte, 4096)
	for {
		n, err := p.cl.Conn.Read(buf)
		if n > 0 {
			raw = append(raw, buf[:n]...)
			p.cl.RecvRaw = append(p.cl.RecvRaw, buf[:n]...)
			if pl, derr := op.Feed(buf[:n]); derr == nil {
				plain = append(plain, pl...)
			}
			if m, _, perr := ref.ParseMessage(plain); perr == nil && m != nil {
				r.DecStatus, r.DecBody = m.Status, m.Body
				return
			}
			if m, _, perr := ref.ParseMessage(raw); perr == nil && m != nil {
				r.Status, r.Body = m.Status, m.Body
				if strings.EqualFold(m.Headers["connection"], "close") {
					p.dead = true
				}
				return
			}
		}
		if err != nil {
			r.Err = err.Error()
			r.Closed = true
			p.dead = true
			return
		}
	}
}

// ---------- the run ----------

func runAdv(t *testing.T, sci interface{}) *Outcome {
	sc := sci.(*AdvScenario)
	return bubbleOutcome(t, sc.Seed, sc.Sched, func(w *World) *Outcome {
		o := &Outcome{}
		aw := &advWorld{sc: sc, w: w, allowedStore: map[string][]byte{}, requiredStore: map[string][]byte{}, verifiedConns: map[int]bool{}, allowedVerified: map[int]bool{}, legitConn: -1, legitWrites: map[string]bool{}, initialEntities: map[string][]byte{}, removedOK: map[string]bool{}}
		aw.legitID, aw.legitKP = "legit-controller", w.Keypair()
		aw.peerID, aw.peerKP = "peer-self", w.Keypair()
		aw.pairedID, aw.pairedKP = "peer-paired", w.Keypair()
		aw.pairedKP2 = w.Keypair()
		if !sc.Unpaired {
			w.SeedPairing(aw.pairedID, aw.pairedKP)
		}
		for i := 0; i < sc.Others; i++ {
			id := fmt.Sprintf("other-%d", i)
			aw.otherIDs = append(aw.otherIDs, id)
			w.SeedPairing(id, w.Keypair())
		}
		if sc.Legit && !sc.LegitSetup && !sc.Unpaired {
			w.SeedPairing(aw.legitID, aw.legitKP)
		}
		// accessories with planted canaries
		for i := 0; i < sc.NAcc; i++ {
			info := accessory.Info{Name: fmt.Sprintf("Acc%d", i), SerialNumber: fmt.Sprintf("CANARY-SN-%d-%x", i, sc.Seed&0xffff), Manufacturer: "CANARY-MANUFACTURER", Model: "CANARY-MODEL"}
			a := accessory.NewSwitch(info)
			aw.accs = append(aw.accs, a.Accessory)
			idx := i
			a.Switch.On.OnValueRemoteUpdate(func(v bool) {
				aw.callbacks = append(aw.callbacks, fmt.Sprintf("%d.on=%v", idx+1, v))
			})
			a.Accessory.OnIdentify(func() {})
		}
		aw.canaries = []string{"CANARY-", `"iid"`, `"perms"`, `"accessories"`, `"aid"`}
		if err := w.NewTransport(hc.Config{Pin: sc.Pin}, aw.accs); err != nil {
			o.Harness = "NewIPTransport: " + err.Error()
			return o
		}
		if sc.Resource {
			setSnapshot(w.Tr, func(width, height uint) (*image.Image, error) {
				aw.snapshotCalls++
				var img image.Image = image.NewGray(image.Rect(0, 0, 2, 2))
				return &img, nil
			})
		}
		w.Start()
		es, _ := w.Tr.VerifDatabase().Entities()
		for _, e := range es {
			aw.initialEntities[e.Name] = e.PublicKey
		}

		// the legitimate controller
		if sc.Legit {
			w.Sim.Go("legit", func() {
				defer func() { aw.legitDone = true }()
				var cl *ref.Client
				var c *core.Conn
				if sc.Twin {
					w.StepWhen("legit", "twin: wait for the first peer connection", func() bool {
						return (len(aw.slots) > 0 && aw.slots[0].conn != nil) || aw.peersAllDone
					})
					if w.Sim.InTeardown() {
						return
					}
				}
				if sc.Twin && len(aw.slots) > 0 && aw.slots[0].conn != nil {
					c = w.Sim.DialTo(w.Sim.Listener, aw.slots[0].conn.Client().LocalAddr().String(), "10.0.1.1:51826")
					cl = &ref.Client{Conn: c.Client(), Rand: w.Rand}
					cl.Yield = func(what string) { w.Sim.Park("step", "legit", c.ID, " "+what, nil) }
					w.Sim.Count("fault.twin_connection_same_remote_address")
				} else {
					cl, c = w.NewClient("legit")
				}
				aw.legitConn = c.ID
				accLTPK := w.AccLTPK
				if sc.LegitSetup {
					aw.allowedStore[aw.legitID] = aw.legitKP.Pub
					res, err := cl.PairSetup(fmtPin(sc.Pin), aw.legitID, aw.legitKP)
					if err != nil || res.ErrorCode != 0 {
						aw.legitErr = fmt.Sprintf("legit pair-setup: %v %+v", err, res)
						return
					}
					aw.requiredStore[aw.legitID] = aw.legitKP.Pub
					// what an on-path observer saw of M5
					aw.capturedM5 = lastTLVItem(w.Sim.Conns[c.ID].Sent[0], ref.TagEncrypted)
					rest := w.Sim.Conns[c.ID].Sent[0]
					var bodies [][]byte
					for {
						n := httpRequestLen(rest)
						if n <= 0 {
							break
						}
						if i := bytes.Index(rest[:n], []byte("\r\n\r\n")); i >= 0 {
							bodies = append(bodies, append([]byte(nil), rest[i+4:n]...))
						}
						rest = rest[n:]
					}
					if len(bodies) == 3 {
						aw.capturedSetup = bodies
					}
				}
				aw.allowedVerified[c.ID] = true
				cl.OnSend = func(b []byte) {
					if aw.capturedPVM1 == nil && bytes.Contains(b, []byte("/pair-verify")) {
						aw.capturedPVM1 = lastBody(b)
					}
				}
				ok, err := cl.PairVerify(aw.legitID, aw.legitKP, accLTPK)
				if err != nil || !ok {
					aw.legitErr = fmt.Sprintf("legit pair-verify: ok=%v err=%v", ok, err)
					return
				}
				aw.verifiedConns[c.ID] = true
				aw.capturedPVM3 = lastBody(w.Sim.Conns[c.ID].Sent[0])
				for i := 0; i < sc.LegitOps; i++ {
					aw.legitInFlight = []string{"/characteristics", "/accessories", "/characteristics"}[i%3]
					if i > 0 {
						w.Step("legit", "next request")
					}
					switch i % 3 {
					case 0:
						v := (i/3)%2 == 0
						aw.legitWrites[fmt.Sprintf("1.on=%v", v)] = true
						if _, err := cl.Do("PUT", "/characteristics", ref.CTypeJSON, []byte(fmt.Sprintf(`{"characteristics":[{"aid":1,"iid":9,"value":%v,"ev":true}]}`, v))); err != nil {
							aw.legitErr = "legit PUT: " + err.Error()
							return
						}
					case 1:
						if _, err := cl.Do("GET", "/accessories", "", nil); err != nil {
							aw.legitErr = "legit GET /accessories: " + err.Error()
							return
						}
					default:
						if _, err := cl.Do("GET", "/characteristics?id=1.9", "", nil); err != nil {
							aw.legitErr = "legit GET: " + err.Error()
							return
						}
					}
				}
				aw.legitInFlight = ""
				if sc.LegitAdmin != "" {
					aw.legitInFlight = "/pairings"
					items := []ref.TLV{{Tag: ref.TagState, Val: []byte{1}}, {Tag: ref.TagMethod, Val: []byte{4}}, {Tag: ref.TagIdentifier, Val: []byte(aw.pairedID)}}
					if sc.LegitAdmin == "rekey" {
						items = []ref.TLV{{Tag: ref.TagState, Val: []byte{1}}, {Tag: ref.TagMethod, Val: []byte{3}}, {Tag: ref.TagIdentifier, Val: []byte(aw.pairedID)}, {Tag: ref.TagPublicKey, Val: aw.pairedKP2.Pub}, {Tag: ref.TagPermission, Val: []byte{0}}}
						aw.allowedStore[aw.pairedID] = aw.pairedKP2.Pub
					} else {
						aw.removedOK[aw.pairedID] = true
					}
					w.Step("legit", "admin "+sc.LegitAdmin)
					aw.adminSent = true
					m, err := cl.Do("POST", "/pairings", ref.CTypeTLV, ref.TLVEncode(items))
					if err != nil || m.Status != 200 {
						aw.legitErr = fmt.Sprintf("legit /pairings %s: %v", sc.LegitAdmin, err)
						return
					}
					aw.adminDone = true
					w.Sim.Count("probe.admin_" + sc.LegitAdmin)
				}
			})
		} else {
			aw.legitDone = true
		}
		// the application
		if sc.AppOps > 0 {
			w.Sim.Go("app", func() {
				defer func() { aw.appDone = true }()
				for i := 0; i < sc.AppOps; i++ {
					w.Step("app", fmt.Sprintf("set %d", i))
					sw := aw.accs[i%len(aw.accs)]
					for _, s := range sw.Services {
						for _, c := range s.Characteristics {
							if c.Type == characteristic.TypeOn {
								c.UpdateValue(i%2 == 0)
							}
						}
					}
				}
			})
		} else {
			aw.appDone = true
		}
		// the peers
		nslots := 0
		for _, op := range sc.Ops {
			if op.Conn+1 > nslots {
				nslots = op.Conn + 1
			}
		}
		peersDone := 0
		for sl := 0; sl < nslots; sl++ {
			p := &peerConn{slot: sl, name: fmt.Sprintf("peer%d", sl), w: w}
			aw.slots = append(aw.slots, p)
			var ops []AdvOp
			for _, op := range sc.Ops {
				if op.Conn == sl {
					ops = append(ops, op)
				}
			}
			w.Sim.Go(p.name, func() {
				defer func() { peersDone++; aw.peersAllDone = peersDone == nslots }()
				for _, op := range ops {
					w.Step(p.name, op.Kind)
					if w.Sim.InTeardown() {
						return
					}
					r := aw.do(p, op)
					aw.results = append(aw.results, r)
					w.Sim.Logf("  peer%d %s -> status=%d dec=%d closed=%v err=%q", p.slot, op.Kind, r.Status, r.DecStatus, r.Closed, r.Err)
				}
				if sc.Prop == "C13" {
					aw.epilogue(p)
				}
			})
		}
		w.Sim.OnQuiescent = func() error {
			aw.invariants()
			return nil
		}
		if err := w.Sim.Run(func() bool { return aw.fail != "" || (peersDone == nslots && aw.legitDone && aw.appDone) }); err != nil {
			o.Harness = err.Error()
			return o
		}
		allDone := peersDone == nslots && aw.legitDone && aw.appDone
		aw.finalChecks(allDone)
		if aw.fail != "" {
			o.Violation = sc.Prop + ":" + aw.failSig
			o.Sig = aw.failSig
			o.Detail = aw.fail
		}
		var kinds []string
		for _, r := range aw.results {
			kinds = append(kinds, fmt.Sprintf("%d:%s:%d", r.Op.Conn, r.Op.Kind, r.Status))
		}
		o.Nontrivial = len(aw.results) > 0
		o.Shape = fmt.Sprintf("%s|code=%v key=%v legit=%v|%s", sc.Prop, sc.KnowsCode, sc.KnowsKey, sc.Legit, strings.Join(kinds, ","))
		return o
	})
}

// epilogue is the liveness part of C13: after the hostile messages a correct handshake
// succeeds on the same connection after at most one rejected start request, and on a new one.
func (aw *advWorld) epilogue(p *peerConn) {
	w := aw.w
	if !p.dead && p.cl != nil && !aw.verifiedConns[p.conn.ID] {
		w.Step(p.name, "epilogue same connection")
		aw.allowedVerified[p.conn.ID] = true
		ok, err := aw.honestVerify(p.cl, 1)
		if err != nil || !ok {
			aw.violate("wedged-same-connection", "after the hostile messages a correct pair-verify on the same connection (c%d) does not succeed even after one rejected start: ok=%v err=%v", p.conn.ID, ok, err)
			return
		}
		if m, err := p.cl.Do("GET", "/accessories", "", nil); err != nil || m.Status != 200 {
			aw.violate("wedged-same-connection", "after a correct pair-verify on c%d an encrypted GET /accessories fails: %v", p.conn.ID, err)
			return
		}
	}
	w.Step(p.name, "epilogue new connection")
	cl, c := w.NewClient(p.name)
	p.conns = append(p.conns, c)
	id := fmt.Sprintf("epilogue-%d", p.slot)
	kp := w.Keypair()
	aw.allowedStore[id] = kp.Pub
	res, err := cl.PairSetup(fmtPin(aw.sc.Pin), id, kp)
	if err != nil || res.ErrorCode != 0 {
		aw.violate("wedged-new-connection", "after the hostile messages a correct pair-setup on a new connection fails: err=%v res=%+v", err, res)
		return
	}
	aw.allowedVerified[c.ID] = true
	ok, err := cl.PairVerify(id, kp, w.AccLTPK)
	if err != nil || !ok {
		aw.violate("wedged-new-connection", "after the hostile messages a correct pair-verify on a new connection fails: ok=%v err=%v", ok, err)
		return
	}
	aw.verifiedConns[c.ID] = true
	if m, err := cl.Do("GET", "/accessories", "", nil); err != nil || m.Status != 200 {
		aw.violate("wedged-new-connection", "after a correct handshake on a new connection GET /accessories fails: %v", err)
	}
}

// honestVerify runs pair-verify with the stored controller "peer-paired"; a rejected start
// request is retried up to retries times.
func (aw *advWorld) honestVerify(cl *ref.Client, retries int) (bool, error) {
	for attempt := 0; ; attempt++ {
		t, m, err := cl.PostTLV("/pair-verify", cl.VerifyM1())
		if err != nil {
			return false, err
		}
		if t == nil || tlvErr(t) != 0 || tlvState(t) != 2 {
			if attempt < retries {
				continue
			}
			return false, fmt.Errorf("start request rejected %d times (HTTP %d)", attempt+1, m.Status)
		}
		if _, err := cl.VerifyAbsorbM2(t, aw.w.AccLTPK); err != nil {
			return false, err
		}
		t, m, err = cl.PostTLV("/pair-verify", cl.VerifyM3With(cl.VerifyKey(), aw.pairedID, aw.pairedKP.Priv, nil))
		if err != nil {
			return false, err
		}
		if t == nil || tlvErr(t) != 0 || tlvState(t) != 4 {
			return false, fmt.Errorf("genuine finish request rejected (HTTP %d)", m.Status)
		}
		cl.StartSession(cl.Shared)
		return true, nil
	}
}

func lastBody(sent []byte) []byte {
	i := bytes.LastIndex(sent, []byte("\r\n\r\n"))
	if i < 0 {
		return nil
	}
	return append([]byte(nil), sent[i+4:]...)
}

func lastTLVItem(sent []byte, tag byte) []byte {
	b := lastBody(sent)
	if t, _, err := ref.TLVDecode(b); err == nil {
		return t[tag]
	}
	return nil
}

// invariants are evaluated at every quiescent point.
func (aw *advWorld) invariants() {
	if aw.fail != "" {
		return
	}
	w := aw.w
	sc := aw.sc
	// (C03/C01) a connection has a cryptographer only if the model allows it to be verified
	ctx := w.Tr.VerifContext()
	var active []net.Conn
	w.Sim.Inline(func() { active = ctx.ActiveConnections() })
	for _, hc := range active {
		id := core.ConnID(hc)
		sess := ctx.GetSessionForConnection(hc)
		if sess == nil {
			continue
		}
		if aw.on("C01", "C03") && (sess.Encrypter() != nil || sess.Decrypter() != nil) && !aw.allowedVerified[id] {
			aw.violate("unverified-connection-has-session", "connection c%d has an active cryptographer although no genuine finish request was ever sent on it", id)
			return
		}
	}
	// (C02) stored pairings: required <= actual <= initial + allowed
	if !aw.on("C01", "C02") {
		return
	}
	es, err := w.Tr.VerifDatabase().Entities()
	if err != nil {
		aw.violate("entities-unreadable", "Entities(): %v", err)
		return
	}
	_ = sc
	actual := map[string][]byte{}
	for _, e := range es {
		actual[e.Name] = e.PublicKey
	}
	for name, key := range actual {
		if init, ok := aw.initialEntities[name]; ok {
			if !bytes.Equal(init, key) {
				if allowed, ok2 := aw.allowedStore[name]; !ok2 || !bytes.Equal(allowed, key) {
					aw.violate("stored-key-changed", "the stored key of %q changed without a genuine key exchange", name)
					return
				}
			}
			continue
		}
		allowed, ok := aw.allowedStore[name]
		if !ok || !bytes.Equal(allowed, key) {
			aw.violate("pairing-stored-without-proof", "a pairing for %q is stored although no genuine key-exchange message for it was sent (stored entities: %v)", name, sortedKeys(actual))
			return
		}
	}
	for name := range aw.initialEntities {
		if _, ok := actual[name]; !ok && !aw.removedOK[name] {
			aw.violate("pairing-removed", "the stored pairing %q disappeared", name)
			return
		}
	}
	for name, key := range aw.requiredStore {
		if aw.removedOK[name] {
			continue
		}
		if got, ok := actual[name]; !ok || !bytes.Equal(got, key) {
			aw.violate("genuine-pairing-not-stored", "the key exchange for %q completed but the pairing is not stored", name)
			return
		}
	}
}

func sortedKeys(m map[string][]byte) []string {
	var ks []string
	for k := range m {
		ks = append(ks, k)
	}
	sort.Strings(ks)
	return ks
}

// finalChecks are the history oracles.
func (aw *advWorld) finalChecks(allDone bool) {
	if aw.fail != "" {
		return
	}
	sc := aw.sc
	w := aw.w
	aw.invariants()
	if aw.fail != "" {
		return
	}
	protectedKinds := map[string]bool{"path-variant": true, "get-acc": true, "get-chars": true, "put-val": true, "put-ev": true, "pairings-add": true, "pairings-remove": true, "pairings-list": true, "resource": true, "enc-get-own": true, "enc-get-zero": true, "enc-get-random": true, "enc-replay-L": true, "plain-after": true}
	for _, r := range aw.results {
		slotConnVerified := false
		for _, p := range aw.slots {
			if p.slot == r.Op.Conn {
				for _, c := range p.conns {
					if aw.verifiedConns[c.ID] {
						slotConnVerified = true
					}
				}
			}
		}
		if protectedKinds[r.Op.Kind] && !slotConnVerified && aw.on("C01", "C03") {
			// refused: no success status in either interpretation
			if r.DecStatus != 0 {
				aw.violate("served-ciphertext-under-peer-key", "%s on an unverified connection was answered with ciphertext that opens under a key the peer derived itself (status %d)", r.Op.Kind, r.DecStatus)
				return
			}
			if aw.on("C01") && r.Status >= 200 && r.Status < 300 && r.Op.Kind != "identify" {
				if r.Op.Kind == "resource" && !sc.Resource {
					continue
				}
				aw.violate("protected-request-served:"+r.Op.Kind, "%s on an unverified connection was answered with status %d (%.60q)", r.Op.Kind, r.Status, r.Body)
				return
			}
		}
	}
	if aw.on("C13") {
		aw.c13Checks(allDone)
		return
	}
	if !aw.on("C01") {
		return
	}
	// disclosure: nothing a peer connection received may contain a canary
	for _, p := range aw.slots {
		for _, c := range p.conns {
			if aw.verifiedConns[c.ID] {
				continue
			}
			raw := c.Capture[1]
			for _, can := range aw.canaries {
				if bytes.Contains(raw, []byte(can)) {
					aw.violate("canary-disclosed", "connection c%d (never verified) received %q in plaintext", c.ID, can)
					return
				}
			}
			if bytes.Contains(raw, []byte("EVENT/1.0")) {
				aw.violate("event-to-unverified", "connection c%d (never verified) received an EVENT message", c.ID)
				return
			}
		}
	}
	for _, r := range aw.results {
		for _, can := range aw.canaries {
			if bytes.Contains(r.DecBody, []byte(can)) {
				aw.violate("canary-disclosed-in-ciphertext", "%s: the answer decrypts under a peer-derived key and contains %q", r.Op.Kind, can)
				return
			}
		}
	}
	// when the peer legitimately verified a connection (it held a stored key for a while), callbacks and
	// snapshots cannot be attributed; everything else above was judged per connection
	for _, p := range aw.slots {
		for _, c := range p.conns {
			if aw.verifiedConns[c.ID] {
				return
			}
		}
	}
	// no callback that the legitimate controller did not cause
	for _, cb := range aw.callbacks {
		if !aw.legitWrites[cb] {
			aw.violate("callback-from-unverified-write", "the application received remote update %s that the legitimate controller did not write", cb)
			return
		}
	}
	if aw.snapshotCalls > 0 {
		aw.violate("snapshot-for-unverified", "the camera snapshot handler ran %d times for unverified connections", aw.snapshotCalls)
		return
	}
	// subscriptions: no peer connection may be subscribed
	ctx := w.Tr.VerifContext()
	var active []net.Conn
	w.Sim.Inline(func() { active = ctx.ActiveConnections() })
	for _, hcn := range active {
		id := core.ConnID(hcn)
		if aw.verifiedConns[id] || aw.allowedVerified[id] {
			continue
		}
		sess := ctx.GetSessionForConnection(hcn)
		if sess == nil {
			continue
		}
		for _, a := range aw.accs {
			for _, s := range a.Services {
				for _, c := range s.Characteristics {
					if sess.IsSubscribedTo(c) {
						aw.violate("subscription-for-unverified", "unverified connection c%d is subscribed to %d.%d", id, a.ID, c.ID)
						return
					}
				}
			}
		}
	}
	if sc.Legit && aw.legitErr != "" && (sc.Prop == "C01" || sc.Prop == "C02") && !sc.Twin {
		aw.violate("legit-controller-disturbed", "the legitimate controller failed while the peer was active: %s", aw.legitErr)
	}
	_ = allDone
}

// setSnapshot installs the camera snapshot callback (an exported field of the unexported transport type).
func setSnapshot(tr Transport, fn func(width, height uint) (*image.Image, error)) {
	reflect.ValueOf(tr).Elem().FieldByName("CameraSnapshotReq").Set(reflect.ValueOf(fn))
}

func (aw *advWorld) c13Checks(allDone bool) {
	w := aw.w
	if pl := w.PanicLines(); len(pl) > 0 {
		aw.violate("handler-panic", "a handler panicked: %s", strings.TrimSpace(pl[0]))
		return
	}
	for _, r := range aw.results {
		if r.Sent && r.Status == 0 && r.DecStatus == 0 {
			aw.violate("no-response:"+r.Op.Kind, "%s (arg %d, body %.40q) was not answered with a well-formed response: closed=%v err=%s", r.Op.Kind, r.Op.Arg, r.Op.Body, r.Closed, r.Err)
			return
		}
	}
	if !allDone {
		aw.violate("wedged", "the run ended with a peer still waiting for an answer")
		return
	}
}

// JSON helper used by several properties.
func mustJSON(v interface{}) string {
	b, _ := json.Marshal(v)
	return string(b)
}
