package props

import (
	"bytes"
	"encoding/json"
	"fmt"
	"strings"
	"testing"

	"github.com/brutella/hc"
	"pgregory.net/rapid"

	"verif/sim/ref"
)

// C04: a specification-conformant controller can pair, verify and talk.

type C04Req struct {
	Kind string `json:"kind"` // "acc", "get", "put"
	N    int    `json:"n"`    // repetition (request size)
}

type C04Scenario struct {
	Seed     uint64   `json:"seed"`
	Pin      string   `json:"pin"`
	WrongPin string   `json:"wrong_pin,omitempty"` // non-empty: the controller uses this code
	CtlID    string   `json:"ctl_id"`
	NAcc     int      `json:"n_acc"`
	PreSeed  bool     `json:"pre_seed"` // pairing already in the store (skip pair-setup)
	Others   int      `json:"others"`   // other controllers already stored
	Stale    bool     `json:"stale,omitempty"` // the store already holds the controller's identifier with another key (it pairs again after a reset of its own)
	Retry    bool     `json:"retry"`    // with WrongPin: the same controller then enters the right code on the same connection
	Pipeline bool     `json:"pipeline"` // requests are pipelined: the head of the next request is sent before the previous response is read
	Reqs     []C04Req `json:"reqs"`
	// Bystander > 0: somebody else tries to pair at the same time on another connection, with a
	// wrong setup code, that many times. It must not keep the controller from pairing.
	Bystander int      `json:"bystander,omitempty"`
	Sched     []uint16 `json:"sched"`
}

func genC04(rt *rapid.T) interface{} {
	sc := &C04Scenario{}
	sc.Seed = rapid.Uint64().Draw(rt, "seed")
	sc.Pin = genPin(rt, "pin")
	if rapid.IntRange(0, 5).Draw(rt, "wrong") == 0 {
		for {
			sc.WrongPin = genPin(rt, "wrongpin")
			if sc.WrongPin != sc.Pin {
				break
			}
		}
	}
	sc.Retry = sc.WrongPin != "" && rapid.Bool().Draw(rt, "retry")
	sc.Pipeline = rapid.IntRange(0, 3).Draw(rt, "pipeline") == 0
	sc.CtlID = genCtlID(rt, "id")
	sc.NAcc = rapid.IntRange(1, 6).Draw(rt, "nacc")
	sc.PreSeed = sc.WrongPin == "" && rapid.IntRange(0, 2).Draw(rt, "preseed") == 0
	sc.Others = rapid.IntRange(0, 2).Draw(rt, "others")
	sc.Stale = !sc.PreSeed && rapid.IntRange(0, 3).Draw(rt, "stale") == 0
	n := rapid.IntRange(0, 5).Draw(rt, "nreq")
	for i := 0; i < n; i++ {
		k := rapid.SampledFrom([]string{"acc", "get", "put"}).Draw(rt, "kind")
		sc.Reqs = append(sc.Reqs, C04Req{Kind: k, N: rapid.IntRange(1, 120).Draw(rt, "n")})
	}
	if rapid.IntRange(0, 3).Draw(rt, "bystander") == 0 {
		sc.Bystander = rapid.IntRange(1, 3).Draw(rt, "nby")
	}
	sc.Sched = genSched(rt, 500)
	return sc
}

func runC04(t *testing.T, sci interface{}) *Outcome {
	sc := sci.(*C04Scenario)
	return bubbleOutcome(t, sc.Seed, sc.Sched, func(w *World) *Outcome {
		o := &Outcome{}
		kp := w.Keypair()
		others := map[string]ref.Keypair{}
		for i := 0; i < sc.Others; i++ {
			okp := w.Keypair()
			id := fmt.Sprintf("other-%d", i)
			others[id] = okp
			w.SeedPairing(id, okp)
		}
		if sc.PreSeed {
			w.SeedPairing(sc.CtlID, kp)
		}
		if sc.Stale {
			w.Sim.Count("probe.identifier_already_stored_with_another_key")
			w.SeedPairing(sc.CtlID, w.Keypair())
		}
		accs := BuildAccessories(sc.NAcc, "")
		if err := w.NewTransport(hc.Config{Pin: sc.Pin}, accs); err != nil {
			o.Harness = "NewIPTransport: " + err.Error()
			return o
		}
		w.Start()
		before, _ := w.Tr.VerifDatabase().Entities()

		var fail, failSig string
		done := false
		paired := sc.PreSeed
		retried := false
		reqsDone := 0
		violate := func(sig, f string, a ...interface{}) {
			if fail == "" {
				fail = fmt.Sprintf(f, a...)
				failSig = sig
			}
		}
		if sc.Bystander > 0 {
			bkp := w.Keypair()
			w.Sim.Go("bystander", func() {
				bc, _ := w.NewClient("bystander")
				wrong := "111-22-333"
				if wrong == fmtPin(sc.Pin) {
					wrong = "111-22-334"
				}
				for i := 0; i < sc.Bystander && !w.Sim.InTeardown(); i++ {
					w.Sim.Count("fault.concurrent_pair_setup_by_another_peer")
					if _, err := bc.PairSetup(wrong, "bystander", bkp); err != nil {
						return
					}
				}
			})
		}
		w.Sim.Go("ctl", func() {
			defer func() { done = true }()
			cl, _ := w.NewClient("ctl")
			accLTPK := w.AccLTPK
			if !sc.PreSeed {
				code := sc.Pin
				if sc.WrongPin != "" {
					code = sc.WrongPin
				}
				r, err := cl.PairSetup(fmtPin(code), sc.CtlID, kp)
				if err != nil {
					violate("setup", "pair-setup: %v", err)
					return
				}
				if sc.WrongPin != "" {
					if r.ErrorCode != 2 || r.ErrorState != 4 {
						violate("wrongcode", "wrong setup code answered with error %d in state %d, want error 2 in M4", r.ErrorCode, r.ErrorState)
						return
					}
					if !sc.Retry {
						return
					}
					// the user corrects the code: a second attempt on the same connection
					w.Sim.Count("probe.retry_after_wrong_code")
					r, err = cl.PairSetup(fmtPin(sc.Pin), sc.CtlID, kp)
					if err != nil {
						violate("retry-after-wrong-code", "the right setup code after a wrong one on the same connection: %v", err)
						return
					}
					if r.ErrorCode != 0 {
						violate("retry-after-wrong-code", "the right setup code after a wrong one on the same connection is answered with error %d in state %d", r.ErrorCode, r.ErrorState)
						return
					}
					retried = true
				}
				if r.ErrorCode != 0 && !retried {
					violate("setup-error", "pair-setup with the right code answered error %d in state %d", r.ErrorCode, r.ErrorState)
					return
				}
				if r.AccessoryID != w.AccID {
					violate("setup-id", "M6 accessory id %q differs from advertised id %q", r.AccessoryID, w.AccID)
					return
				}
				if !bytes.Equal(r.AccessoryLTPK, w.AccLTPK) {
					violate("setup-ltpk", "M6 accessory LTPK differs from the stored one")
					return
				}
				accLTPK = r.AccessoryLTPK
				paired = true
			}
			ok, err := cl.PairVerify(sc.CtlID, kp, accLTPK)
			if err != nil {
				sig := "verify"
				if strings.Contains(err.Error(), "M4 not readable") {
					sig = "verify-m4-not-plaintext"
				}
				violate(sig, "pair-verify: %v", err)
				return
			}
			if !ok {
				violate("verify-refused", "pair-verify of a paired controller refused")
				return
			}
			if sc.Pipeline && len(sc.Reqs) > 1 {
				// HTTP/1.1 pipelining: each request's first half is on the wire before the previous response was read
				w.Sim.Count("probe.pipelined_requests")
				var raws [][]byte
				for _, rq := range sc.Reqs {
					switch rq.Kind {
					case "acc":
						raws = append(raws, ref.Request("GET", "/accessories", "", nil))
					case "get":
						raws = append(raws, ref.Request("GET", "/characteristics?id=1.2", "", nil))
					default:
						var ents []string
						for k := 0; k < rq.N; k++ {
							ents = append(ents, `{"aid":1,"iid":2,"value":true}`)
						}
						raws = append(raws, ref.Request("PUT", "/characteristics", ref.CTypeJSON, []byte(`{"characteristics":[`+strings.Join(ents, ",")+`]}`)))
					}
				}
				w.Step("ctl", "pipeline first")
				if err := cl.Send(raws[0]); err != nil {
					violate("req-pipeline", "send: %v", err)
					return
				}
				for i := range raws {
					var rest []byte
					if i+1 < len(raws) {
						// the next request is framed as two writes: its first half goes out now
						next := raws[i+1]
						w.Step("ctl", "pipeline head of next")
						if err := cl.Send(next[:len(next)/2]); err != nil {
							violate("req-pipeline", "send: %v", err)
							return
						}
						rest = next[len(next)/2:]
					}
					m, err := cl.Recv()
					if err != nil {
						violate("req-pipeline", "pipelined request %d (%s): %v", i, sc.Reqs[i].Kind, err)
						return
					}
					want := 200
					if sc.Reqs[i].Kind == "put" {
						want = 204
					}
					if m.Status != want {
						violate("req-pipeline-status", "pipelined request %d (%s): status %d, want %d", i, sc.Reqs[i].Kind, m.Status, want)
						return
					}
					reqsDone++
					if rest != nil {
						w.Step("ctl", "pipeline rest of next")
						if err := cl.Send(rest); err != nil {
							violate("req-pipeline", "send: %v", err)
							return
						}
					}
				}
				return
			}
			for i, rq := range sc.Reqs {
				switch rq.Kind {
				case "acc":
					m, err := cl.Do("GET", "/accessories", "", nil)
					if err != nil {
						violate("req-acc", "request %d GET /accessories: %v", i, err)
						return
					}
					var doc struct {
						Accessories []json.RawMessage `json:"accessories"`
					}
					if m.Status != 200 || json.Unmarshal(m.Body, &doc) != nil || len(doc.Accessories) != sc.NAcc {
						violate("req-acc-body", "request %d GET /accessories: status %d, %d accessories (want %d), body %.80q", i, m.Status, len(doc.Accessories), sc.NAcc, m.Body)
						return
					}
				case "get":
					var ids []string
					for k := 0; k < rq.N; k++ {
						ids = append(ids, fmt.Sprintf("1.%d", 2+k%5))
					}
					m, err := cl.Do("GET", "/characteristics?id="+strings.Join(ids, ","), "", nil)
					if err != nil {
						violate("req-get", "request %d GET /characteristics: %v", i, err)
						return
					}
					var doc struct {
						Characteristics []map[string]interface{} `json:"characteristics"`
					}
					if m.Status != 200 || json.Unmarshal(m.Body, &doc) != nil || len(doc.Characteristics) != rq.N {
						violate("req-get-body", "request %d GET /characteristics: status %d, %d entries (want %d)", i, m.Status, len(doc.Characteristics), rq.N)
						return
					}
				case "put":
					var ents []string
					for k := 0; k < rq.N; k++ {
						// identify is write-only on every accessory (aid 1, iid 2)
						ents = append(ents, `{"aid":1,"iid":2,"value":true}`)
					}
					body := `{"characteristics":[` + strings.Join(ents, ",") + `]}`
					m, err := cl.Do("PUT", "/characteristics", ref.CTypeJSON, []byte(body))
					if err != nil {
						violate("req-put", "request %d PUT /characteristics (%d bytes): %v", i, len(body), err)
						return
					}
					if m.Status != 204 {
						violate("req-put-status", "request %d PUT /characteristics: status %d", i, m.Status)
						return
					}
				}
				reqsDone++
			}
		})
		if err := w.Sim.Run(func() bool { return done }); err != nil {
			o.Harness = err.Error()
			return o
		}
		if !done && fail == "" {
			violate("stalled", "the controller is still waiting and nothing is left to deliver (steps=%d, reqs done=%d)", w.Sim.Steps, reqsDone)
		}
		// storage oracle
		after, err := w.Tr.VerifDatabase().Entities()
		if err != nil && fail == "" {
			violate("db", "Entities(): %v", err)
		}
		if fail == "" {
			if sc.WrongPin != "" && !retried {
				if len(after) != len(before) {
					violate("wrongcode-stored", "a wrong setup code changed the stored pairings: %d -> %d", len(before), len(after))
				}
			} else if paired {
				e, err := w.Tr.VerifDatabase().EntityWithName(sc.CtlID)
				if err != nil || !bytes.Equal(e.PublicKey, kp.Pub) || e.Name != sc.CtlID {
					violate("stored-entity", "stored entity for %q is not (id, LTPK): err=%v name=%q", sc.CtlID, err, e.Name)
				}
				wantMore := 1
				if sc.Stale {
					wantMore = 0
				}
				if !sc.PreSeed && len(after) != len(before)+wantMore {
					violate("stored-count", "pair-setup changed the entity count %d -> %d", len(before), len(after))
				}
			}
		}
		if pl := w.PanicLines(); len(pl) > 0 && fail == "" {
			violate("panic", "handler panic: %s", pl[0])
		}
		if fail != "" {
			o.Violation = "C04:" + failSig
			o.Sig = failSig
			o.Detail = fail
		}
		o.Nontrivial = done && fail == ""
		o.Shape = fmt.Sprintf("pre=%v wrong=%v nacc=%d reqs=%v idlen=%d h=%x", sc.PreSeed, sc.WrongPin != "", sc.NAcc, sc.Reqs, len(sc.CtlID), w.Sim.Hash())
		return o
	})
}

func TestC04(t *testing.T) {
	drive(t, &PropDef{ID: "C04", Gen: genC04, Decode: decodeInto[C04Scenario], Run: runC04, Checks: 40, CrashCapture: true})
}
