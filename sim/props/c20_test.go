package props

import (
	"bytes"
	"crypto/md5"
	"encoding/json"
	"fmt"
	"sort"
	"strconv"
	"strings"
	"testing"
	"testing/synctest"

	"github.com/brutella/hc"
	"github.com/brutella/hc/accessory"
	"github.com/brutella/hc/characteristic"
	"github.com/brutella/hc/service"
	"github.com/brutella/hc/util"
	"pgregory.net/rapid"

	"verif/sim/ref"
)

// C20: identity, configuration number and discoverability persist correctly.
// The simulated faults are restarts: stop the transport, drop every object, build a new
// transport on the same directory, with the same or a structurally different accessory set.

type C20Op struct {
	Kind string `json:"kind"` // restart, pair-setup, pair-add, unpair, set, probe
	Arg  int    `json:"arg"`
}

type C20Scenario struct {
	Seed    uint64   `json:"seed"`
	Pin     string   `json:"pin"`
	SetupID string   `json:"setup_id"`
	First   int      `json:"first"` // structure variant of the first start
	Ops     []C20Op  `json:"ops"`
	Sched   []uint16 `json:"sched"`
}

func genC20(rt *rapid.T) interface{} {
	sc := &C20Scenario{Seed: rapid.Uint64().Draw(rt, "seed"), Pin: genPin(rt, "pin")}
	sc.SetupID = rapid.StringOfN(rapid.RuneFrom([]rune("ABCDEFGHIJKLMNOPQRSTUVWXYZ0123456789")), 4, 4, 4).Draw(rt, "setupid")
	sc.First = rapid.IntRange(0, 5).Draw(rt, "first")
	if rapid.Bool().Draw(rt, "manyvariants") {
		sc.First = rapid.IntRange(0, 6000).Draw(rt, "firstv")
	}
	n := rapid.IntRange(1, tierScale(9)).Draw(rt, "nops")
	kinds := []string{"restart", "restart", "restart", "pair-setup", "pair-setup-damaged", "pair-add", "pair-add-again", "unpair", "unpair", "unpair-unknown", "set", "set", "probe", "pair-race", "pair-race"}
	for i := 0; i < n; i++ {
		op := C20Op{Kind: rapid.SampledFrom(kinds).Draw(rt, "kind"), Arg: rapid.IntRange(0, 11).Draw(rt, "arg")}
		if op.Kind == "restart" && rapid.Bool().Draw(rt, "bigarg") {
			op.Arg = rapid.IntRange(0, 6000).Draw(rt, "argv")
		}
		sc.Ops = append(sc.Ops, op)
	}
	sc.Sched = genSched(rt, 200)
	return sc
}

// c20Structure builds the accessory set of a variant. Variants 0/1 and 2/3 differ only in
// values; the others differ in structure.
func c20Structure(v int) []*accessory.Accessory {
	sw := func(name string) *accessory.Switch {
		a := accessory.NewSwitch(accessory.Info{Name: name, SerialNumber: "SN-1", Manufacturer: "verif", Model: "m"})
		if v >= 6 {
			// hundreds of further structures: the manufacturer description of a characteristic
			// is part of the structure (everything but values is)
			a.Switch.On.Description = fmt.Sprintf("variant %d", v/6)
		}
		return a
	}
	switch v % 6 {
	case 0:
		return []*accessory.Accessory{sw("First").Accessory}
	case 1: // same structure as 0, other values (name, serial, on)
		a := accessory.NewSwitch(accessory.Info{Name: "First", SerialNumber: "SN-other", Manufacturer: "someone", Model: "m2", FirmwareRevision: "9.9"})
		a.Switch.On.SetValue(true)
		return []*accessory.Accessory{a.Accessory}
	case 2: // a bridge
		return []*accessory.Accessory{sw("First").Accessory, accessory.NewOutlet(accessory.Info{Name: "Outlet"}).Accessory}
	case 3: // same bridge, other values
		o := accessory.NewOutlet(accessory.Info{Name: "Outlet renamed"})
		o.Outlet.On.SetValue(true)
		return []*accessory.Accessory{sw("First").Accessory, o.Accessory}
	case 4: // one more characteristic on the switch service
		a := sw("First")
		a.Switch.AddCharacteristic(characteristic.NewConfiguredName().Characteristic)
		return []*accessory.Accessory{a.Accessory}
	default: // another permission list on one characteristic, one more service
		a := sw("First")
		a.Switch.On.Perms = []string{characteristic.PermRead}
		svc := service.NewLightbulb()
		a.AddService(svc.Service)
		return []*accessory.Accessory{a.Accessory}
	}
}

// stripValues removes every "value" member and returns a canonical hash of what is left.
func stripValues(v interface{}) interface{} {
	switch x := v.(type) {
	case map[string]interface{}:
		out := map[string]interface{}{}
		for k, e := range x {
			if k == "value" {
				continue
			}
			out[k] = stripValues(e)
		}
		return out
	case []interface{}:
		out := make([]interface{}, len(x))
		for i, e := range x {
			out[i] = stripValues(e)
		}
		return out
	}
	return v
}

func structureHash(accs interface{}) (string, error) {
	b, err := json.Marshal(accs)
	if err != nil {
		return "", err
	}
	var doc interface{}
	if err := json.Unmarshal(b, &doc); err != nil {
		return "", err
	}
	c, _ := json.Marshal(stripValues(doc))
	return fmt.Sprintf("%x", md5.Sum(c)), nil
}

// decodeXHM decodes a setup URI (written from the HAP specification's payload layout).
func decodeXHM(uri string) (code uint64, category uint64, flags uint64, setupID string, err error) {
	if !strings.HasPrefix(uri, "X-HM://") || len(uri) != 7+9+4 {
		return 0, 0, 0, "", fmt.Errorf("malformed setup URI %q", uri)
	}
	payload, err := strconv.ParseUint(uri[7:16], 36, 64)
	if err != nil {
		return 0, 0, 0, "", err
	}
	code = payload & 0x7ffffff
	flags = (payload >> 27) & 0xf
	category = (payload >> 31) & 0xff
	if payload>>39 != 0 {
		return 0, 0, 0, "", fmt.Errorf("version / reserved bits are not zero in %q", uri)
	}
	return code, category, flags, uri[16:], nil
}

func runC20(t *testing.T, sci interface{}) *Outcome {
	sc := sci.(*C20Scenario)
	return bubbleOutcome(t, sc.Seed, sc.Sched, func(w *World) *Outcome {
		o := &Outcome{Stats: map[string]int{}}
		s := w.Sim
		var fail, failSig string
		violate := func(sig, f string, a ...interface{}) {
			if fail == "" {
				failSig, fail = sig, fmt.Sprintf(f, a...)
			}
		}
		type ctl struct {
			id string
			kp ref.Keypair
		}
		pairings := []ctl{} // model of the stored controller pairings
		var wantID string
		var wantLTPK []byte
		wantVersion := 0
		lastStruct := ""
		variant := sc.First
		nctl := 0
		shape := ""
		var accs []*accessory.Accessory

		checkTXT := func(when string) {
			txt := w.Resp.Text()
			wantSF := "1"
			if len(pairings) > 0 {
				wantSF = "0"
			}
			if txt["sf"] != wantSF {
				violate("discoverable-flag", "%s: the advertised sf is %q with %d stored controller pairing(s), want %q", when, txt["sf"], len(pairings), wantSF)
			}
			if txt["id"] != wantID {
				violate("device-id-changed", "%s: the advertised id is %q, the first run advertised %q", when, txt["id"], wantID)
			}
		}
		start := func(when string) bool {
			accs = c20Structure(variant)
			if err := w.NewTransport(hc.Config{Pin: sc.Pin, SetupId: sc.SetupID}, accs); err != nil {
				o.Harness = "NewIPTransport: " + err.Error()
				return false
			}
			w.Start()
			st, err := structureHash(w.Tr.VerifContainer())
			if err != nil {
				violate("database-not-encodable", "%v", err)
				return false
			}
			txt := w.Resp.Text()
			if wantID == "" {
				wantID, wantLTPK = w.AccID, w.AccLTPK
				wantVersion = 1
			} else {
				if st != lastStruct {
					wantVersion++
					o.Stats["probe.structure_changed"]++
				} else {
					o.Stats["probe.structure_same"]++
				}
				if !bytes.Equal(w.AccLTPK, wantLTPK) {
					violate("long-term-key-changed", "%s: the accessory's long-term public key changed across the restart", when)
				}
			}
			lastStruct = st
			if txt["c#"] != strconv.Itoa(wantVersion) {
				violate("config-number", "%s: the advertised c# is %s, want %d (variant %d)", when, txt["c#"], wantVersion, variant)
			}
			checkTXT(when)
			// stored pairings survive
			es, err := w.Tr.VerifDatabase().Entities()
			if err != nil {
				violate("entities-unreadable", "%s: %v", when, err)
			} else {
				got := map[string][]byte{}
				for _, e := range es {
					got[e.Name] = e.PublicKey
				}
				for _, p := range pairings {
					if !bytes.Equal(got[p.id], p.kp.Pub) {
						violate("pairing-lost", "%s: the pairing of %q is not stored any more", when, p.id)
					}
				}
				if len(es) != len(pairings)+1 {
					violate("pairing-count", "%s: %d entities are stored, want %d controller pairings plus the accessory", when, len(es), len(pairings))
				}
			}
			// the setup URI decodes back
			uri, err := w.Tr.XHMURI()
			if err != nil {
				violate("setup-uri", "XHMURI: %v", err)
			} else {
				code, cat, flags, sid, derr := decodeXHM(uri)
				wantCat := uint64(accs[0].Type)
				if len(accs) > 1 {
					wantCat = uint64(accessory.TypeBridge)
				}
				pinN, _ := strconv.ParseUint(sc.Pin, 10, 64)
				if derr != nil || code != pinN || cat != wantCat || flags != uint64(util.SetupFlagIP) || sid != sc.SetupID {
					violate("setup-uri", "setup URI %q decodes to code %d category %d flags %d id %q (err %v); want %d / %d / %d / %q", uri, code, cat, flags, sid, derr, pinN, wantCat, util.SetupFlagIP, sc.SetupID)
				}
			}
			return true
		}
		// runActor runs f as an actor and drives the simulation until it is done.
		runActor := func(name string, f func()) bool {
			done := false
			s.Go(name, func() {
				defer func() { done = true }()
				f()
			})
			if err := s.Run(func() bool { return done || fail != "" }); err != nil {
				o.Harness = err.Error()
				return false
			}
			if !done && fail == "" {
				violate("stalled", "%s did not finish", name)
			}
			return fail == "" && o.Harness == ""
		}
		if !start("first start") {
			goto end
		}
		for i, op := range sc.Ops {
			if fail != "" {
				break
			}
			when := fmt.Sprintf("op %d (%s)", i, op.Kind)
			shape += op.Kind[:2]
			o.Stats["op."+op.Kind]++
			switch op.Kind {
			case "restart":
				o.Stats["fault.restart"]++
				s.Inline(func() {
					s.ReleaseYields()
					s.CloseAll()
					w.StopTransport()
					synctest.Wait()
				})
				s.Logf("  restart")
				if op.Arg%2 == 0 {
					variant = op.Arg
				} else if op.Arg%4 == 1 && variant%6 <= 3 {
					variant ^= 1 // same structure, other values (pairs 0/1 and 2/3)
				}
				if !start(when + " restart") {
					goto end
				}
			case "pair-setup":
				nctl++
				c := ctl{id: fmt.Sprintf("controller-%d", nctl), kp: w.Keypair()}
				ok := false
				if !runActor("pairer", func() {
					cl, _ := w.NewClient("pairer")
					res, err := cl.PairSetup(fmtPin(sc.Pin), c.id, c.kp)
					if err != nil || res.ErrorCode != 0 {
						violate("pair-setup-failed", "%s: pair-setup failed: %v %+v", when, err, res)
						return
					}
					ok = true
					cl.Conn.Close()
				}) {
					break
				}
				if ok {
					pairings = append(pairings, c)
					checkTXT(when + " after pair-setup")
				}
			case "pair-setup-damaged":
				// somebody who knows the setup code gets as far as the key exchange, and that
				// message is damaged (Arg even: a flipped bit in the sealed data; odd: correctly
				// sealed, signed with another key). Nothing is stored, so nothing may change.
				nctl++
				c := ctl{id: fmt.Sprintf("controller-%d", nctl), kp: w.Keypair()}
				other := w.Keypair()
				o.Stats["fault.damaged_key_exchange"]++
				if !runActor("pairer", func() {
					cl, _ := w.NewClient("pairer")
					cl.MutateM5 = func(enc, K []byte) []byte {
						if op.Arg%2 == 0 {
							enc = bytes.Clone(enc)
							enc[(op.Arg/2)%len(enc)] ^= 0x10
							return enc
						}
						encKey := ref.HKDF(K, "Pair-Setup-Encrypt-Salt", "Pair-Setup-Encrypt-Info")
						return ref.SetupM5PayloadWith(encKey, K, c.id, c.kp.Pub, other.Priv)
					}
					res, err := cl.PairSetup(fmtPin(sc.Pin), c.id, c.kp)
					if err == nil && res.ErrorCode == 0 {
						violate("damaged-key-exchange-accepted", "%s: pair-setup with a damaged key exchange message was answered without an error", when)
					}
					cl.Conn.Close()
				}) {
					break
				}
				if es, err := w.Tr.VerifDatabase().Entities(); err == nil {
					for _, e := range es {
						if e.Name == c.id {
							violate("damaged-key-exchange-stored", "%s: a pairing for %q is stored after a damaged key exchange", when, c.id)
						}
					}
				}
				checkTXT(when + " after a failed pair-setup")
			case "pair-add", "pair-add-again", "unpair", "unpair-unknown", "probe":
				if len(pairings) == 0 {
					continue
				}
				admin := pairings[op.Arg%len(pairings)]
				nctl++
				added := ctl{id: fmt.Sprintf("controller-%d", nctl), kp: w.Keypair()}
				victim := pairings[(op.Arg/3)%len(pairings)]
				ok := false
				if !runActor("admin", func() {
					cl, _, err := w.verified("admin", admin.id, admin.kp)
					if err != nil {
						violate("paired-controller-cannot-verify", "%s: %q cannot verify: %v", when, admin.id, err)
						return
					}
					switch op.Kind {
					case "pair-add":
						body := ref.TLVEncode([]ref.TLV{{Tag: ref.TagState, Val: []byte{1}}, {Tag: ref.TagMethod, Val: []byte{3}}, {Tag: ref.TagIdentifier, Val: []byte(added.id)}, {Tag: ref.TagPublicKey, Val: added.kp.Pub}, {Tag: ref.TagPermission, Val: []byte{0}}})
						m, err := cl.Do("POST", "/pairings", ref.CTypeTLV, body)
						if err != nil || m.Status != 200 {
							violate("pairings-add-failed", "%s: add pairing failed: %v %+v", when, err, m)
							return
						}
					case "pair-add-again":
						// adding a controller that is already paired (a permission update) changes nothing
						body := ref.TLVEncode([]ref.TLV{{Tag: ref.TagState, Val: []byte{1}}, {Tag: ref.TagMethod, Val: []byte{3}}, {Tag: ref.TagIdentifier, Val: []byte(victim.id)}, {Tag: ref.TagPublicKey, Val: victim.kp.Pub}, {Tag: ref.TagPermission, Val: []byte{1}}})
						m, err := cl.Do("POST", "/pairings", ref.CTypeTLV, body)
						if err != nil || m.Status != 200 {
							violate("pairings-add-failed", "%s: add pairing (again) failed: %v %+v", when, err, m)
							return
						}
					case "unpair-unknown":
						body := ref.TLVEncode([]ref.TLV{{Tag: ref.TagState, Val: []byte{1}}, {Tag: ref.TagMethod, Val: []byte{4}}, {Tag: ref.TagIdentifier, Val: []byte("nobody-knows-me")}})
						if _, err := cl.Do("POST", "/pairings", ref.CTypeTLV, body); err != nil {
							violate("pairings-remove-failed", "%s: remove of an unknown pairing failed: %v", when, err)
							return
						}
					case "unpair":
						body := ref.TLVEncode([]ref.TLV{{Tag: ref.TagState, Val: []byte{1}}, {Tag: ref.TagMethod, Val: []byte{4}}, {Tag: ref.TagIdentifier, Val: []byte(victim.id)}})
						m, err := cl.Do("POST", "/pairings", ref.CTypeTLV, body)
						if err != nil || m.Status != 200 {
							violate("pairings-remove-failed", "%s: remove pairing failed: %v %+v", when, err, m)
							return
						}
					case "probe":
						m, err := cl.Do("GET", "/accessories", "", nil)
						if err != nil || m.Status != 200 {
							violate("probe-failed", "%s: GET /accessories failed: %v", when, err)
							return
						}
					}
					ok = true
					cl.Conn.Close()
				}) {
					break
				}
				if ok {
					switch op.Kind {
					case "pair-add":
						pairings = append(pairings, added)
					case "unpair":
						var rest []ctl
						for _, p := range pairings {
							if p.id != victim.id {
								rest = append(rest, p)
							}
						}
						pairings = rest
					}
					checkTXT(when + " after " + op.Kind)
				}
			case "pair-race":
				// two connections of one admin controller at the same time: one adds a controller, the
				// other removes it (if it is there yet) and then every other pairing. Whatever order the
				// accessory processes them in: once both are done it is discoverable exactly when nothing
				// is stored.
				if len(pairings) == 0 {
					continue
				}
				admin := pairings[op.Arg%len(pairings)]
				nctl++
				added := ctl{id: fmt.Sprintf("controller-%d", nctl), kp: w.Keypair()}
				nctl++
				added2 := ctl{id: fmt.Sprintf("controller-%d", nctl), kp: w.Keypair()}
				known := append([]ctl{added, added2}, pairings...)
				bothAdd := op.Arg%3 == 2 // variant: both connections add a controller (two writers of the store)
				ack1, ack2, sent1 := false, false, false
				d1, d2 := false, false
				o.Stats["fault.concurrent_pairing_changes"]++
				pairingsReq := func(cl *ref.Client, method byte, c ctl) bool {
					items := []ref.TLV{{Tag: ref.TagState, Val: []byte{1}}, {Tag: ref.TagMethod, Val: []byte{method}}, {Tag: ref.TagIdentifier, Val: []byte(c.id)}}
					if method == 3 {
						items = append(items, ref.TLV{Tag: ref.TagPublicKey, Val: c.kp.Pub}, ref.TLV{Tag: ref.TagPermission, Val: []byte{1}})
					}
					m, err := cl.Do("POST", "/pairings", ref.CTypeTLV, ref.TLVEncode(items))
					if err != nil || m.Status != 200 {
						return false
					}
					t, _, err := ref.TLVDecode(m.Body)
					return err == nil && len(t[ref.TagError]) == 0
				}
				s.Go("admin", func() {
					defer func() { d1 = true }()
					if cl, _, err := w.verified("admin", admin.id, admin.kp); err == nil {
						sent1 = true
						ack1 = pairingsReq(cl, 3, added)
						cl.Conn.Close()
					}
				})
				s.Go("admin2", func() {
					defer func() { d2 = true }()
					if cl, _, err := w.verified("admin2", admin.id, admin.kp); err == nil {
						if bothAdd {
							// both additions are in flight at the same time
							w.StepWhen("admin2", "wait until the other addition is on its way", func() bool { return sent1 || d1 })
							ack2 = pairingsReq(cl, 3, added2)
							cl.Conn.Close()
							return
						}
						if op.Arg%4 < 2 {
							// the interesting order: the removals start when the new pairing has just been stored
							// (the first connection is then somewhere between storing it and answering)
							w.StepWhen("admin2", "wait until the added pairing is stored", func() bool {
								if d1 {
									return true
								}
								e, err := w.Tr.VerifDatabase().EntityWithName(added.id)
								return err == nil && len(e.PublicKey) > 0
							})
						}
						pairingsReq(cl, 4, added)
						if op.Arg%2 == 0 {
							for _, c := range pairings {
								if c.id != admin.id {
									pairingsReq(cl, 4, c)
								}
							}
							pairingsReq(cl, 4, admin)
						}
						cl.Conn.Close()
					}
				})
				if err := s.Run(func() bool { return (d1 && d2) || fail != "" }); err != nil {
					o.Harness = err.Error()
					goto end
				}
				// let the accessory finish what is still in flight, then take the store as it is
				if err := s.Run(nil); err != nil {
					o.Harness = err.Error()
					goto end
				}
				if !(d1 && d2) {
					violate("stalled", "%s: the two admin connections did not finish", when)
					break
				}
				if es, err := w.Tr.VerifDatabase().Entities(); err != nil {
					violate("entities-unreadable", "%s: %v", when, err)
				} else {
					var now []ctl
					for _, c := range known {
						for _, e := range es {
							if e.Name == c.id && bytes.Equal(e.PublicKey, c.kp.Pub) {
								now = append(now, c)
							}
						}
					}
					if len(es) != len(now)+1 {
						violate("pairing-count", "%s: %d entities are stored, %d of them are controllers somebody added", when, len(es), len(now))
					}
					if bothAdd {
						has := func(c ctl) bool {
							for _, n := range now {
								if n.id == c.id {
									return true
								}
							}
							return false
						}
						if (ack1 && !has(added)) || (ack2 && !has(added2)) {
							violate("pairing-lost", "%s: two connections added a controller each at the same time and both were acknowledged (%v, %v), but the store holds %d controllers", when, ack1, ack2, len(now))
						}
					}
					pairings = now
					checkTXT(when + " after both admin connections finished")
				}
			case "set":
				// value changes must never bump the configuration number
				s.Inline(func() {
					for _, a := range accs {
						for _, sv := range a.Services {
							for _, c := range sv.Characteristics {
								switch c.Format {
								case characteristic.FormatBool:
									c.UpdateValue(op.Arg%2 == 0)
								case characteristic.FormatString:
									if c.Type != characteristic.TypeName || a != accs[0] {
										c.UpdateValue(fmt.Sprintf("value-%d", op.Arg))
									}
								}
							}
						}
					}
				})
			}
		}
	end:
		if fail != "" {
			o.Violation = "C20:" + failSig
			o.Sig = failSig
			o.Detail = fail
		}
		o.Nontrivial = o.Stats["fault.restart"] > 0 || len(pairings) > 0
		keys := []string{}
		for k, v := range o.Stats {
			keys = append(keys, fmt.Sprintf("%s=%d", k, v))
		}
		sort.Strings(keys)
		o.Shape = fmt.Sprintf("%d|%s|%s", sc.First, shape, strings.Join(keys, ","))
		return o
	})
}

// fixedC20 is the pure part of C20, decided by plain enumeration (not simulation): setup
// codes are accepted exactly when they are eight digits and not trivial, and the setup URI
// decodes back. The thorough tier enumerates all 10^8 codes (sharded over workers).
func fixedC20(t *testing.T, emit func(sc interface{}, o *Outcome)) {
	wk := int(envInt("VERIF_WORKER", 0))
	n := int(envInt("VERIF_WORKERS", 1))
	full := envInt("VERIF_C20_ALL_CODES", 0) == 1
	o := &Outcome{Stats: map[string]int{}, Nontrivial: true, Shape: "pin-enumeration"}
	bad := func(sig, f string, a ...interface{}) {
		if o.Violation == "" {
			o.Violation, o.Sig, o.Detail = "C20:"+sig, sig, fmt.Sprintf(f, a...)
		}
	}
	check := func(code int) {
		p := fmt.Sprintf("%08d", code)
		fp, err := hc.ValidatePin(p)
		want := !trivialPins[p]
		if (err == nil) != want {
			bad("pin-validation", "ValidatePin(%q): err=%v, want accepted=%v", p, err, want)
		}
		if err == nil && fp != fmtPin(p) {
			bad("pin-format", "ValidatePin(%q) = %q, want %q", p, fp, fmtPin(p))
		}
		o.Stats["pure.codes_checked"]++
	}
	step := 1
	if !full {
		step = 9973
	}
	for code := wk * step; code < 100000000; code += n * step {
		check(code)
	}
	for _, p := range []string{"12345678", "87654321", "00000000", "11111111", "99999999", "00000001", "99999998"} {
		c, _ := strconv.Atoi(p)
		check(c)
	}
	for _, s := range []string{"", "1", "1234567", "123456789", "1234567a", "١٢٣٤٥٦٧٨", "1234 678", "123-45-678", "+1234567", "-1234567", "１２３４５６７８", "12345678\n", " 12345678", "0x123456", "1e234567"} {
		if _, err := hc.ValidatePin(s); err == nil {
			bad("pin-validation", "ValidatePin(%q) accepted a string that is not eight digits", s)
		}
		o.Stats["pure.strings_checked"]++
	}
	// setup URI round trip over categories x flag sets x sampled codes and ids
	for cat := 0; cat < 256; cat += 1 + wk%3 {
		for fl := 0; fl < 16; fl++ {
			for _, code := range []int{0, 1, 102003, 31415926, 99999998, 67108863, 67108864} {
				pin := fmt.Sprintf("%08d", code)
				var flags []util.SetupFlag
				for b := 0; b < 4; b++ {
					if fl&(1<<b) != 0 {
						flags = append(flags, util.SetupFlag(1<<b))
					}
				}
				uri, err := util.XHMURI(pin, "AB1Z", uint8(cat), flags)
				if err != nil {
					bad("setup-uri", "XHMURI(%s,%d,%v): %v", pin, cat, flags, err)
					continue
				}
				c, ca, f, sid, derr := decodeXHM(uri)
				if derr != nil || int(c) != code || int(ca) != cat || int(f) != fl || sid != "AB1Z" {
					bad("setup-uri", "XHMURI(%s, cat %d, flags %d) = %q decodes to %d/%d/%d/%q (%v)", pin, cat, fl, uri, c, ca, f, sid, derr)
				}
				o.Stats["pure.uris_checked"]++
			}
		}
	}
	emit(map[string]interface{}{"pure_enumeration": true, "all_codes": full}, o)
}

func TestC20(t *testing.T) {
	drive(t, &PropDef{ID: "C20", Gen: genC20, Decode: decodeInto[C20Scenario], Run: runC20, Checks: 40, Fixed: fixedC20, FixedAllWorkers: true, CrashCapture: true})
}
