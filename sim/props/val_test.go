package props

import (
	"bytes"
	"encoding/base64"
	"encoding/json"
	"fmt"
	"math"
	"net"
	"sort"
	"strconv"
	"strings"
	"testing"
	"time"
	"unicode/utf8"

	"github.com/anishathalye/porcupine"
	"github.com/brutella/hc"
	"github.com/brutella/hc/accessory"
	"github.com/brutella/hc/characteristic"
	"github.com/brutella/hc/service"
	"pgregory.net/rapid"

	"verif/sim/core"
	"verif/sim/ref"
)

// The value world: a bridge built from the constructor registry, 1..3 verified controllers
// and 1..2 application goroutines running generated operations. C09 (value fidelity),
// C10 (events), C11 (permissions) and C12 (types and ranges) put different oracles and
// different generator weights on the same run.

type ValOp struct {
	Actor  string      `json:"actor"`             // "a0","a1" application goroutines, "k0".."k2" controllers
	Kind   string      `json:"kind"`              // aset aget aconn kget kacc kput ksub kunsub kclose
	Chars  []int       `json:"chars"`             // indices into the scenario's characteristic list; -1 = a missing id
	Val    interface{} `json:"val,omitempty"`     // C12: an arbitrary JSON value, used as it is
	K      int         `json:"k,omitempty"`       // other properties: mapped to an in-range value of the characteristic at run time
	Str    string      `json:"str,omitempty"`     // content for string formats
	Same   bool        `json:"same,omitempty"`    // write the value the characteristic currently has
	EvForm int         `json:"ev_form,omitempty"` // ksub/kunsub: 0 boolean, 1 number 1/0, 2 string "1"/"0", 3 string "true"/"false"
	Over   int         `json:"over,omitempty"`    // 1: write a value above the declared maximum, 2: below the minimum (it is clamped)
}

type ValScenario struct {
	Prop   string           `json:"prop"`
	Seed   uint64           `json:"seed"`
	Sel    []int            `json:"sel"`             // registry indices used
	PerAcc int              `json:"per_acc"`         // characteristics per accessory
	Perms  map[int][]string `json:"perms,omitempty"` // permission overrides by position in Sel
	NCtl   int              `json:"n_ctl"`
	NApp   int              `json:"n_app"`
	Ops    []ValOp          `json:"ops"`
	Sched  []uint16         `json:"sched"`
}

// charInfo is what the generator knows about a registry entry.
type charInfo struct {
	Format   string
	Min, Max interface{}
	Perms    []string
	Type     string
}

var regInfo []charInfo

func registryInfo() []charInfo {
	if regInfo != nil {
		return regInfo
	}
	for _, r := range charRegistry {
		var ci charInfo
		func() {
			defer func() { recover() }()
			c := r.New()
			ci = charInfo{Format: c.Format, Min: c.MinValue, Max: c.MaxValue, Perms: c.Perms, Type: c.Type}
		}()
		regInfo = append(regInfo, ci)
	}
	return regInfo
}

func hasPerm(perms []string, p string) bool {
	for _, x := range perms {
		if x == p {
			return true
		}
	}
	return false
}

func isIntFormat(f string) bool {
	switch f {
	case characteristic.FormatUInt8, characteristic.FormatUInt16, characteristic.FormatUInt32, characteristic.FormatUInt64, characteristic.FormatInt32:
		return true
	}
	return false
}

func isStringFormat(f string) bool {
	return f == characteristic.FormatString || f == characteristic.FormatTLV8 || f == characteristic.FormatData
}

func formatRange(ci charInfo) (lo, hi float64) {
	switch ci.Format {
	case characteristic.FormatUInt8:
		lo, hi = 0, 255
	case characteristic.FormatUInt16:
		lo, hi = 0, 65535
	case characteristic.FormatUInt32, characteristic.FormatUInt64:
		lo, hi = 0, 4294967295
	case characteristic.FormatInt32:
		lo, hi = -2147483648, 2147483647
	case characteristic.FormatFloat:
		lo, hi = -1000, 1000
	}
	switch v := ci.Min.(type) {
	case int:
		lo = float64(v)
	case float64:
		lo = v
	}
	switch v := ci.Max.(type) {
	case int:
		hi = float64(v)
	case float64:
		hi = v
	}
	return
}

var strAlphabet = []rune("abcXYZ019 \"\\/<>&'\n\t{}[]:,éß✓𝄞😀 ")

// makeValue maps the abstract (K, Str) of an operation to an in-range value of the
// characteristic it is applied to. Doing this at run time keeps shrunk scenarios in range.
func makeValue(format string, min, max interface{}, op ValOp, uniq int) interface{} {
	lo, hi := formatRange(charInfo{Format: format, Min: min, Max: max})
	k := op.K
	if k < 0 {
		k = -k
	}
	switch {
	case format == characteristic.FormatBool:
		return k%2 == 0
	case isIntFormat(format):
		span := hi - lo
		if span <= 0 {
			return lo
		}
		if span > 1e6 {
			span = 1e6
		}
		return lo + float64((k+uniq*7)%(int(span)+1))
	case format == characteristic.FormatFloat:
		steps := int((hi - lo) * 10)
		if steps <= 0 {
			return lo
		}
		j := (k + uniq*13) % (steps + 1)
		return math.Round((lo+float64(j)/10)*10) / 10
	case format == characteristic.FormatString:
		return fmt.Sprintf("u%d:", uniq) + op.Str
	default: // tlv8 / data: base64 payloads
		sizes := []int{0, 1, 2, 3, 40, 700, 2500}
		n := sizes[k%len(sizes)]
		b := make([]byte, n)
		for i := range b {
			b[i] = byte(uniq*31 + i*7)
		}
		return base64.StdEncoding.EncodeToString(b)
	}
}

// genAnyJSON draws an arbitrary (finite) JSON value.
func genAnyJSON(rt *rapid.T, depth int) interface{} {
	k := rapid.IntRange(0, 9).Draw(rt, "jk")
	if depth > 1 && k >= 7 {
		k = 0
	}
	switch k {
	case 0:
		return rapid.SampledFrom([]float64{0, 1, -1, 2, 255, 256, 65536, -70000, 4294967296, 1e12, -1e12, 1e300, -1e300, 0.5, -0.5, 99.99, 1e-9, 9007199254740993}).Draw(rt, "num")
	case 1:
		return float64(rapid.IntRange(-300, 70000).Draw(rt, "n"))
	case 2:
		return rapid.Bool().Draw(rt, "b")
	case 3:
		return rapid.SampledFrom([]string{"", "1", "true", "false", "12.5", "-3", "abc", "1e400", "NaN", "0x10", " 7 ", "\u0000", "😀"}).Draw(rt, "s")
	case 4:
		return rapid.StringN(0, 8, 30).Draw(rt, "str")
	case 5:
		return nil
	case 6:
		return rapid.Float64Range(-1e6, 1e6).Draw(rt, "f")
	case 7, 8:
		n := rapid.IntRange(0, 3).Draw(rt, "alen")
		arr := []interface{}{}
		for i := 0; i < n; i++ {
			arr = append(arr, genAnyJSON(rt, depth+1))
		}
		return arr
	default:
		n := rapid.IntRange(0, 2).Draw(rt, "olen")
		m := map[string]interface{}{}
		for i := 0; i < n; i++ {
			m[fmt.Sprintf("k%d", i)] = genAnyJSON(rt, depth+1)
		}
		return m
	}
}

func genVal(prop string) func(rt *rapid.T) interface{} {
	return func(rt *rapid.T) interface{} {
		info := registryInfo()
		sc := &ValScenario{Prop: prop, Seed: rapid.Uint64().Draw(rt, "seed")}
		// constructors with unusual behaviour are picked more often than chance would
		special := []int{}
		for i, r := range charRegistry {
			switch r.Name {
			case "ProgrammableSwitchEvent", "Identify", "Name", "Logs", "LockControlPoint", "Version", "ActiveIdentifier", "DigitalZoom", "TargetTiltAngle":
				special = append(special, i)
			}
		}
		// selection of constructors
		nsel := rapid.IntRange(3, 12).Draw(rt, "nsel")
		switch rapid.IntRange(0, 7).Draw(rt, "bridge") {
		case 0:
			nsel = len(info) // the whole catalog: a large bridge
		case 1:
			nsel = rapid.IntRange(20, 60).Draw(rt, "nsel2")
		}
		if nsel >= len(info) {
			for i := range info {
				sc.Sel = append(sc.Sel, i)
			}
		} else {
			seen := map[int]bool{}
			if len(special) > 0 && rapid.IntRange(0, 2).Draw(rt, "special") == 0 {
				i := special[rapid.IntRange(0, len(special)-1).Draw(rt, "sp")]
				seen[i] = true
				sc.Sel = append(sc.Sel, i)
			}
			for len(sc.Sel) < nsel {
				i := rapid.IntRange(0, len(info)-1).Draw(rt, "sel")
				if !seen[i] && info[i].Format != "" {
					seen[i] = true
					sc.Sel = append(sc.Sel, i)
				}
			}
		}
		sc.PerAcc = rapid.IntRange(1, 8).Draw(rt, "peracc")
		sc.NCtl = rapid.IntRange(1, 3).Draw(rt, "nctl")
		sc.NApp = rapid.IntRange(1, 2).Draw(rt, "napp")
		if prop == "C11" {
			sc.Perms = map[int][]string{}
			for pos := range sc.Sel {
				if rapid.IntRange(0, 2).Draw(rt, "ovr") == 0 {
					var p []string
					for _, x := range []string{"pr", "pw", "ev"} {
						if rapid.Bool().Draw(rt, "p"+x) {
							p = append(p, x)
						}
					}
					sc.Perms[pos] = p
				}
			}
		}
		perms := func(pos int) []string {
			if p, ok := sc.Perms[pos]; ok {
				return p
			}
			return info[sc.Sel[pos]].Perms
		}
		nops := rapid.IntRange(1, tierScale(14)).Draw(rt, "nops")
		var kinds []string
		switch prop {
		case "C09":
			kinds = []string{"aset", "aset", "aget", "kget", "kget", "kacc", "kput", "kput"}
		case "C10":
			kinds = []string{"aset", "aset", "aset", "aburst", "aburst", "kput", "kput", "kslowput", "kslowput", "kbusyburst", "kbusyburst", "ksub", "ksub", "ksub", "kunsub", "kclose", "kget"}
		case "C11":
			kinds = []string{"aset", "aconn", "kput", "kput", "kput", "ksub", "ksub", "kget", "kacc"}
		case "C12":
			kinds = []string{"aset", "aset", "aconn", "agetter", "agetter", "kput", "kput", "kput", "kget", "kget", "kacc", "aget"}
		}
		// a small working set of characteristics, so that operations meet
		nwork := rapid.IntRange(1, 4).Draw(rt, "nwork")
		if nwork > len(sc.Sel) {
			nwork = len(sc.Sel)
		}
		work := make([]int, 0, nwork)
		if rapid.Bool().Draw(rt, "work0") {
			work = append(work, 0)
		}
		for len(work) < nwork {
			p := rapid.IntRange(0, len(sc.Sel)-1).Draw(rt, "work")
			dup := false
			for _, q := range work {
				if q == p {
					dup = true
				}
			}
			if !dup {
				work = append(work, p)
			}
		}
		for i := 0; i < nops; i++ {
			kind := rapid.SampledFrom(kinds).Draw(rt, "kind")
			op := ValOp{Kind: kind}
			if strings.HasPrefix(kind, "a") {
				op.Actor = fmt.Sprintf("a%d", rapid.IntRange(0, sc.NApp-1).Draw(rt, "app"))
			} else {
				op.Actor = fmt.Sprintf("k%d", rapid.IntRange(0, sc.NCtl-1).Draw(rt, "ctl"))
			}
			pos := work[rapid.IntRange(0, len(work)-1).Draw(rt, "pos")]
			ci := info[sc.Sel[pos]]
			switch kind {
			case "kget":
				n := rapid.IntRange(1, 5).Draw(rt, "nids")
				for j := 0; j < n; j++ {
					switch rapid.IntRange(0, 5).Draw(rt, "idk") {
					case 0:
						op.Chars = append(op.Chars, -1-rapid.IntRange(0, 4).Draw(rt, "miss"))
					case 1:
						op.Chars = append(op.Chars, rapid.IntRange(0, len(sc.Sel)-1).Draw(rt, "anyid"))
					default:
						op.Chars = append(op.Chars, work[rapid.IntRange(0, len(work)-1).Draw(rt, "wid")])
					}
				}
			case "kbusyburst":
				op.Chars = []int{pos, work[rapid.IntRange(0, len(work)-1).Draw(rt, "pos2")]}
				op.K = rapid.IntRange(0, 100000).Draw(rt, "k")
			case "kacc", "kclose":
				op.Chars = []int{pos}
			case "aget":
				op.Chars = []int{pos}
			default:
				op.Chars = []int{pos}
				switch prop {
				case "C12":
					op.Val = genAnyJSON(rt, 0)
					if rapid.IntRange(0, 3).Draw(rt, "rep") == 0 && len(sc.Ops) > 0 {
						// repeat the previous value (composite values written twice)
						for j := len(sc.Ops) - 1; j >= 0; j-- {
							if sc.Ops[j].Val != nil {
								op.Val = sc.Ops[j].Val
								break
							}
						}
					}
				default:
					op.K = rapid.IntRange(0, 100000).Draw(rt, "k")
					if isStringFormat(ci.Format) {
						n := 12
						if rapid.IntRange(0, 9).Draw(rt, "long") == 0 {
							n = 3000
						}
						op.Str = rapid.StringOfN(rapid.RuneFrom(strAlphabet), 0, n, -1).Draw(rt, "str")
					}
					if (prop == "C10" || prop == "C11") && rapid.IntRange(0, 5).Draw(rt, "same") == 0 {
						op.Same = true
					}
					if (kind == "ksub" || kind == "kunsub") && (prop == "C11" || prop == "C10") && rapid.IntRange(0, 3).Draw(rt, "evform") == 0 {
						op.EvForm = rapid.IntRange(1, 3).Draw(rt, "evformk")
					}
					if prop == "C10" && !op.Same && rapid.IntRange(0, 4).Draw(rt, "over") == 0 {
						op.Over = rapid.IntRange(1, 2).Draw(rt, "overdir")
					}
				}
			}
			_ = perms
			sc.Ops = append(sc.Ops, op)
		}
		sc.Sched = genSched(rt, 300)
		return sc
	}
}

// ---------- run ----------

type valChar struct {
	pos  int
	name string
	c    *characteristic.Characteristic
	aid  uint64
	fmt  string
	min  interface{}
	max  interface{}
	perm []string
}

type valEvent struct {
	conn  int
	pos   int
	value string // canonical JSON
	seq   uint64
}

type valWrite struct {
	pos      int
	value    string // canonical JSON of what the model expects to be stored
	origin   string // actor
	conn     int    // originating connection id (-1: application)
	inv, ret uint64
	same     bool
	remote   bool
	refused  bool // the model expects the write to be refused (no pw)
}

type valSubOp struct {
	conn     int
	pos      int
	on       bool
	inv, ret uint64
	accepted bool
	nonBool  bool // ev was not a JSON boolean: whether that subscribes is not specified
}

type valWorld struct {
	sc    *ValScenario
	w     *World
	chars []*valChar
	accs  []*accessory.Accessory

	hist      []porcupine.Operation
	histPos   []int
	uniq      int
	initial   map[int]string
	writes    []*valWrite
	subs      []*valSubOp
	events    []valEvent
	closes    map[int][2]uint64 // conn id -> (invoke, return) of its close
	connActor map[int]string
	finalConn map[string]int
	remoteCB  []valEvent // remote-update callbacks: conn, pos, value
	nFake     int
	localCB   []valEvent

	fail, failSig string
}

func (vw *valWorld) record(pos int, op porcupine.Operation) {
	vw.hist = append(vw.hist, op)
	vw.histPos = append(vw.histPos, pos)
}

func (vw *valWorld) violate(sig, f string, a ...interface{}) {
	if vw.fail == "" {
		vw.failSig, vw.fail = sig, fmt.Sprintf(f, a...)
	}
}

func (vw *valWorld) on(ps ...string) bool {
	for _, p := range ps {
		if vw.sc.Prop == p {
			return true
		}
	}
	return false
}

// canon renders a value as canonical JSON for comparison.
func canon(v interface{}) string {
	switch x := v.(type) {
	case int:
		return fmt.Sprintf("%d", x)
	case float64:
		if x == math.Trunc(x) && math.Abs(x) < 1e15 {
			return fmt.Sprintf("%d", int64(x))
		}
	case nil:
		return "null"
	}
	b, err := json.Marshal(v)
	if err != nil {
		return fmt.Sprintf("!unencodable(%T)", v)
	}
	return string(b)
}

// toNative converts a scenario value to what an application would pass to the typed setter.
func toNative(format string, v interface{}) interface{} {
	switch {
	case isIntFormat(format):
		if f, ok := v.(float64); ok {
			return int(f)
		}
	}
	return v
}

type regInput struct {
	write bool
	val   string
}

var registerModel = porcupine.Model{
	Init: func() interface{} { return "" },
	Step: func(state, input, output interface{}) (bool, interface{}) {
		in := input.(regInput)
		if in.write {
			return true, in.val
		}
		out := output.(string)
		if state.(string) == "" {
			return true, state // initial value unknown to the model: any read is fine until the first write
		}
		return out == state.(string), state
	},
	DescribeOperation: func(input, output interface{}) string {
		in := input.(regInput)
		if in.write {
			return "write " + in.val
		}
		return "read -> " + output.(string)
	},
}

func runVal(t *testing.T, sci interface{}) *Outcome {
	sc := sci.(*ValScenario)
	return bubbleOutcome(t, sc.Seed, sc.Sched, func(w *World) *Outcome {
		o := &Outcome{}
		s := w.Sim
		vw := &valWorld{sc: sc, w: w, closes: map[int][2]uint64{}, connActor: map[int]string{}, finalConn: map[string]int{}}
		// build the bridge
		var acc *accessory.Accessory
		var svc *service.Service
		for pos, ri := range sc.Sel {
			if ri < 0 || ri >= len(charRegistry) {
				o.Harness = "registry index out of range (the catalog changed?)"
				return o
			}
			if pos%sc.PerAcc == 0 {
				acc = accessory.New(accessory.Info{Name: fmt.Sprintf("Acc%d", len(vw.accs))}, accessory.TypeOther)
				svc = service.New("F00D")
				acc.AddService(svc)
				vw.accs = append(vw.accs, acc)
			}
			var c *characteristic.Characteristic
			func() {
				defer func() {
					if r := recover(); r != nil {
						c = nil
					}
				}()
				c = charRegistry[ri].New()
			}()
			if c == nil {
				o.Harness = "constructor " + charRegistry[ri].Name + " panics"
				return o
			}
			if p, ok := sc.Perms[pos]; ok {
				c.Perms = p
				if !hasPerm(p, "pr") {
					c.Value = nil
				}
			}
			svc.AddCharacteristic(c)
			vc := &valChar{pos: pos, name: charRegistry[ri].Name, c: c, fmt: c.Format, min: c.MinValue, max: c.MaxValue, perm: c.Perms}
			vw.chars = append(vw.chars, vc)
			pp := pos
			c.OnValueUpdateFromConn(func(conn net.Conn, ch *characteristic.Characteristic, nv, ov interface{}) {
				id := core.ConnID(conn)
				if fc, ok := conn.(fakeConn); ok {
					id = -100 - fc.n
				}
				vw.remoteCB = append(vw.remoteCB, valEvent{conn: id, pos: pp, value: canon(nv), seq: s.Seq()})
			})
			c.OnValueUpdate(func(ch *characteristic.Characteristic, nv, ov interface{}) {
				vw.localCB = append(vw.localCB, valEvent{conn: -1, pos: pp, value: canon(nv), seq: s.Seq()})
			})
		}
		kps := map[string]ref.Keypair{}
		for k := 0; k < sc.NCtl; k++ {
			id := fmt.Sprintf("ctl-%d", k)
			kps[id] = w.Keypair()
			w.SeedPairing(id, kps[id])
		}
		if err := w.NewTransport(hc.Config{Pin: "00102003"}, vw.accs); err != nil {
			o.Harness = "NewIPTransport: " + err.Error()
			return o
		}
		for _, vc := range vw.chars {
			for _, a := range vw.accs {
				for _, sv := range a.Services {
					for _, c := range sv.Characteristics {
						if c == vc.c {
							vc.aid = a.ID
						}
					}
				}
			}
		}
		w.Start()
		vw.initial = map[int]string{}
		for _, vc := range vw.chars {
			vw.initial[vc.pos] = canon(vc.c.Value)
		}

		actors := map[string][]ValOp{}
		var names []string
		for _, op := range sc.Ops {
			if _, ok := actors[op.Actor]; !ok {
				names = append(names, op.Actor)
			}
			actors[op.Actor] = append(actors[op.Actor], op)
		}
		// every controller exists even without operations (it may be a subscriber or a bystander)
		for k := 0; k < sc.NCtl; k++ {
			n := fmt.Sprintf("k%d", k)
			if _, ok := actors[n]; !ok {
				actors[n] = nil
				names = append(names, n)
			}
		}
		sort.Strings(names)
		opsDone := 0
		finished := 0
		for _, name := range names {
			ops := actors[name]
			name := name
			if strings.HasPrefix(name, "a") {
				s.Go(name, func() {
					defer func() { opsDone++; finished++ }()
					for _, op := range ops {
						w.Step(name, op.Kind)
						if s.InTeardown() {
							return
						}
						vw.appOp(name, op)
					}
				})
				continue
			}
			s.Go(name, func() {
				defer func() { finished++ }()
				id := "ctl-" + name[1:]
				cl, c, err := w.verified(name, id, kps[id])
				if err != nil {
					vw.violate("controller-verify", "%s cannot verify: %v", name, err)
					opsDone++
					return
				}
				vw.connActor[c.ID] = name
				vw.finalConn[name] = c.ID
				cl.OnEvent = func(m *ref.Message) { vw.onEvent(c.ID, m) }
				for _, op := range ops {
					if vw.fail != "" || s.InTeardown() {
						break
					}
					if op.Kind == "kclose" {
						w.Step(name, "close")
						inv := s.Seq()
						cl.Conn.Close()
						// wait until the accessory has noticed, then come back on a new connection
						w.StepWhen(name, "reconnect", func() bool { return c.Closed(1) })
						vw.closes[c.ID] = [2]uint64{inv, s.Seq()}
						cl, c, err = w.verified(name, id, kps[id])
						if err != nil {
							vw.violate("controller-verify", "%s cannot verify again: %v", name, err)
							break
						}
						vw.connActor[c.ID] = name
						vw.finalConn[name] = c.ID
						cc := c
						cl.OnEvent = func(m *ref.Message) { vw.onEvent(cc.ID, m) }
						continue
					}
					vw.ctlOp(name, cl, c, op)
				}
				opsDone++
				// drain: once everybody is done, one more round trip flushes pending events
				w.StepWhen(name, "drain", func() bool { return opsDone == len(names) })
				if vw.fail == "" && !s.InTeardown() {
					if _, err := cl.Do("GET", fmt.Sprintf("/characteristics?id=%d.%d", vw.chars[0].aid, vw.chars[0].c.ID), "", nil); err != nil {
						vw.requestFailed(cl, "%s: final request failed: %v", name, err)
					}
				}
			})
		}
		s.OnQuiescent = func() error {
			vw.invariants()
			return nil
		}
		if err := s.Run(func() bool { return vw.fail != "" || finished == len(names) }); err != nil {
			o.Harness = err.Error()
			return o
		}
		if vw.fail == "" && finished != len(names) {
			vw.violate("stalled", "the run ended with %d of %d actors finished", finished, len(names))
		}
		if pl := w.PanicLines(); len(pl) > 0 && vw.fail == "" {
			vw.violate("panic", "%s", strings.TrimSpace(pl[0]))
		}
		if vw.fail == "" {
			vw.finalChecks(o)
		}
		if vw.fail != "" {
			o.Violation = sc.Prop + ":" + vw.failSig
			o.Sig = vw.failSig
			o.Detail = vw.fail
		}
		var ks []string
		for _, op := range sc.Ops {
			ks = append(ks, op.Actor+op.Kind)
		}
		o.Nontrivial = len(sc.Ops) > 1
		o.Shape = fmt.Sprintf("%s|n=%d per=%d|%s|%x", sc.Prop, len(sc.Sel), sc.PerAcc, strings.Join(ks, ","), s.Hash())
		return o
	})
}

func (vw *valWorld) idOf(pos int) string {
	if pos < 0 {
		switch pos {
		case -1:
			return "99.1"
		case -2:
			return fmt.Sprintf("%d.9999", vw.chars[0].aid)
		case -4:
			// ids that differ from an existing one only above bit 31
			vc := vw.chars[len(vw.chars)/2]
			return fmt.Sprintf("%d.%d", vc.aid+1<<32, vc.c.ID)
		case -5:
			vc := vw.chars[len(vw.chars)/2]
			return fmt.Sprintf("%d.%d", vc.aid, uint64(vc.c.ID)+3<<32)
		default:
			return "0.0"
		}
	}
	vc := vw.chars[pos]
	return fmt.Sprintf("%d.%d", vc.aid, vc.c.ID)
}

// idNum prints an id from a decoded JSON document (a float64 below 2^53) without an exponent.
func idNum(v interface{}) string {
	if f, ok := v.(float64); ok {
		return strconv.FormatFloat(f, 'f', -1, 64)
	}
	return fmt.Sprint(v)
}

// valueOf is the value an operation writes to the characteristic.
func (vw *valWorld) valueOf(vc *valChar, op ValOp) interface{} {
	if vw.sc.Prop == "C12" {
		return op.Val
	}
	vw.uniq++
	if op.Over != 0 && (isIntFormat(vc.fmt) || vc.fmt == characteristic.FormatFloat) {
		lo, hi := formatRange(charInfo{Format: vc.fmt, Min: vc.min, Max: vc.max})
		_, hasMax := vc.max.(int)
		_, hasMaxF := vc.max.(float64)
		_, hasMin := vc.min.(int)
		_, hasMinF := vc.min.(float64)
		if op.Over == 1 && (hasMax || hasMaxF) {
			vw.w.Sim.Count("probe.write_above_max")
			return hi + float64(1+op.K%50)
		}
		if op.Over == 2 && (hasMin || hasMinF) && lo > 0 {
			vw.w.Sim.Count("probe.write_below_min")
			return lo - 1
		}
	}
	return makeValue(vc.fmt, vc.min, vc.max, op, vw.uniq)
}

// clampModel is the value the accessory is expected to store for a written number.
func clampModel(vc *valChar, v interface{}) interface{} {
	f, ok := v.(float64)
	if !ok {
		return v
	}
	if isIntFormat(vc.fmt) || vc.fmt == characteristic.FormatFloat {
		switch mx := vc.max.(type) {
		case int:
			if f > float64(mx) {
				return float64(mx)
			}
		case float64:
			if f > mx {
				return mx
			}
		}
		switch mn := vc.min.(type) {
		case int:
			if f < float64(mn) {
				return float64(mn)
			}
		case float64:
			if f < mn {
				return mn
			}
		}
	}
	return v
}

// expectStored is the value the model expects the characteristic to hold after writing v.
func (vw *valWorld) expectStored(vc *valChar, v interface{}) string {
	return canon(toNative(vc.fmt, clampModel(vc, v)))
}

func (vw *valWorld) appOp(name string, op ValOp) {
	s := vw.w.Sim
	vc := vw.chars[op.Chars[0]]
	clientID := int(name[1] - '0')
	switch op.Kind {
	case "aset", "aconn":
		v := vw.valueOf(vc, op)
		if op.Same {
			v = vc.c.Value
		}
		nv := toNative(vc.fmt, v)
		wr := &valWrite{pos: vc.pos, value: vw.expectStored(vc, v), origin: name, conn: -1, inv: s.Seq(), same: op.Same}
		vw.writes = append(vw.writes, wr)
		if op.Kind == "aconn" {
			wr.remote = true
			wr.conn = -2
			wr.refused = !hasPerm(vc.perm, "pw")
			before := canon(vc.c.Value)
			vw.nFake++
			fc := fakeConn{n: vw.nFake}
			nlocal := len(vw.localCB)
			vc.c.UpdateValueFromConnection(nv, fc)
			if wr.refused && vw.on("C11") {
				// other actors may write the same characteristic while this call is preempted:
				// only effects attributable to this call count
				alone := true
				for _, o := range vw.writes {
					if o != wr && o.pos == vc.pos && (o.ret == 0 || o.ret >= wr.inv) {
						alone = false
					}
				}
				if alone && canon(vc.c.Value) != before {
					vw.violate("write-without-pw-changed-value", "UpdateValueFromConnection on %s (perms %v) changed the value %s -> %s", vc.name, vc.perm, before, canon(vc.c.Value))
				}
				for _, cb := range vw.remoteCB {
					if cb.conn == -100-fc.n {
						vw.violate("write-without-pw-callback", "UpdateValueFromConnection on %s (perms %v) invoked a callback", vc.name, vc.perm)
					}
				}
				if alone {
					for _, cb := range vw.localCB[nlocal:] {
						if cb.pos == vc.pos {
							vw.violate("write-without-pw-callback", "UpdateValueFromConnection on %s (perms %v) invoked a callback", vc.name, vc.perm)
						}
					}
				}
			}
		} else {
			vc.c.UpdateValue(nv)
		}
		wr.ret = s.Seq()
		if vw.on("C09") && !wr.refused && hasPerm(vc.perm, "pr") {
			vw.w.Sim.Count("ctor." + vc.name)
			vw.record(vc.pos, porcupine.Operation{ClientId: clientID, Input: regInput{write: true, val: wr.value}, Call: int64(wr.inv), Output: "", Return: int64(wr.ret)})
		}
	case "agetter":
		// the application supplies the value through a getter callback: it is asked on every read
		v := vw.valueOf(vc, op)
		vc.c.OnValueGet(func() interface{} { return v })
		vw.w.Sim.Count("probe.value_getter_registered")
		vc.c.GetValue()
	case "aburst":
		// three changes in a row, the last one back to the first value
		a := vw.valueOf(vc, op)
		op2 := op
		op2.K++
		b := vw.valueOf(vc, op2)
		if canon(toNative(vc.fmt, a)) == canon(toNative(vc.fmt, b)) {
			op2.K += 3
			b = vw.valueOf(vc, op2)
		}
		for _, v := range []interface{}{a, b, a} {
			wr := &valWrite{pos: vc.pos, value: vw.expectStored(vc, v), origin: name, conn: -1, inv: s.Seq()}
			vw.writes = append(vw.writes, wr)
			vc.c.UpdateValue(toNative(vc.fmt, v))
			wr.ret = s.Seq()
		}
		vw.w.Sim.Count("probe.burst_of_three_changes")
	case "aget":
		inv := s.Seq()
		v := vc.c.GetValue()
		ret := s.Seq()
		if vw.on("C09") && hasPerm(vc.perm, "pr") {
			vw.record(vc.pos, porcupine.Operation{ClientId: clientID, Input: regInput{val: fmt.Sprint(vc.pos)}, Call: int64(inv), Output: canon(v), Return: int64(ret)})
		}
	}
}

type fakeAddr struct{}

func (fakeAddr) Network() string { return "tcp" }
func (fakeAddr) String() string  { return "10.9.9.9:1" }

type fakeConn struct{ n int }

func (fakeConn) Read(b []byte) (int, error)         { return 0, fmt.Errorf("fake") }
func (fakeConn) Write(b []byte) (int, error)        { return len(b), nil }
func (fakeConn) Close() error                       { return nil }
func (fakeConn) LocalAddr() net.Addr                { return fakeAddr{} }
func (fakeConn) RemoteAddr() net.Addr               { return fakeAddr{} }
func (fakeConn) SetDeadline(t time.Time) error      { return nil }
func (fakeConn) SetReadDeadline(t time.Time) error  { return nil }
func (fakeConn) SetWriteDeadline(t time.Time) error { return nil }

type charsDoc struct {
	Characteristics []map[string]interface{} `json:"characteristics"`
}

func (vw *valWorld) ctlOp(name string, cl *ref.Client, c *core.Conn, op ValOp) {
	s := vw.w.Sim
	clientID := 10 + int(name[1]-'0')
	switch op.Kind {
	case "kget":
		var ids []string
		for _, p := range op.Chars {
			ids = append(ids, vw.idOf(p))
		}
		inv := s.Seq()
		m, err := cl.Do("GET", "/characteristics?id="+strings.Join(ids, ","), "", nil)
		ret := s.Seq()
		if err != nil {
			vw.requestFailed(cl, "%s GET /characteristics: %v", name, err)
			return
		}
		anyMissing := false
		for _, p := range op.Chars {
			if p < 0 {
				anyMissing = true
			}
		}
		var doc charsDoc
		if err := json.Unmarshal(m.Body, &doc); err != nil {
			vw.violate("get-bad-json", "GET %v: body is not JSON: %v (%.80q)", ids, err, m.Body)
			return
		}
		if !vw.on("C09", "C11", "C12") {
			return
		}
		if vw.on("C09") {
			want := 200
			if anyMissing {
				want = 207
			}
			if m.Status != want {
				vw.violate("get-status", "GET %v answered with status %d, want %d", ids, m.Status, want)
				return
			}
			if len(doc.Characteristics) != len(op.Chars) {
				vw.violate("get-entry-count", "GET %v answered with %d entries", ids, len(doc.Characteristics))
				return
			}
		}
		for i, ent := range doc.Characteristics {
			if i >= len(op.Chars) {
				break
			}
			p := op.Chars[i]
			if vw.on("C09") {
				if got := idNum(ent["aid"]) + "." + idNum(ent["iid"]); got != vw.idOf(p) {
					vw.violate("get-order", "GET %v: entry %d is %s, want %s (each id answered once, in order)", ids, i, got, vw.idOf(p))
					return
				}
				_, hasStatus := ent["status"]
				if anyMissing && !hasStatus {
					vw.violate("multi-status-entry-without-status", "GET %v (207): entry %d (%s) carries no status", ids, i, vw.idOf(p))
					return
				}
				if p < 0 {
					if st, _ := ent["status"].(float64); st == 0 {
						vw.violate("missing-id-without-error", "GET %v: missing id %s answered without an error status", ids, vw.idOf(p))
						return
					}
					continue
				}
			}
			if p < 0 {
				continue
			}
			vc := vw.chars[p]
			val, hasVal := ent["value"]
			if !hasPerm(vc.perm, "pr") {
				if hasVal && vw.on("C11") {
					vw.violate("value-revealed-without-pr", "GET reveals a value for %s (perms %v): %v", vc.name, vc.perm, val)
					return
				}
				continue
			}
			if vw.on("C09") {
				if !hasVal {
					// omitempty drops zero values ("", 0, false): the register model reads that as the zero value
					val = zeroOf(vc.fmt)
				}
				vw.record(p, porcupine.Operation{ClientId: clientID, Input: regInput{val: fmt.Sprint(p)}, Call: int64(inv), Output: canon(val), Return: int64(ret)})
			}
		}
	case "kacc":
		inv := s.Seq()
		m, err := cl.Do("GET", "/accessories", "", nil)
		ret := s.Seq()
		if err != nil {
			vw.requestFailed(cl, "%s GET /accessories: %v", name, err)
			return
		}
		var doc struct {
			Accessories []struct {
				Aid      uint64 `json:"aid"`
				Services []struct {
					Characteristics []map[string]interface{} `json:"characteristics"`
				} `json:"services"`
			} `json:"accessories"`
		}
		if m.Status != 200 || json.Unmarshal(m.Body, &doc) != nil {
			vw.violate("accessories-bad-answer", "GET /accessories: status %d, body does not parse (%d bytes)", m.Status, len(m.Body))
			return
		}
		seen := map[string]map[string]interface{}{}
		for _, a := range doc.Accessories {
			for _, sv := range a.Services {
				for _, ch := range sv.Characteristics {
					seen[fmt.Sprintf("%d.%v", a.Aid, ch["iid"])] = ch
				}
			}
		}
		for _, vc := range vw.chars {
			ch, ok := seen[vw.idOf(vc.pos)]
			if !ok {
				if vw.on("C09") {
					vw.violate("accessories-missing-characteristic", "GET /accessories does not list %s (%s)", vw.idOf(vc.pos), vc.name)
					return
				}
				continue
			}
			val, hasVal := ch["value"]
			if !hasPerm(vc.perm, "pr") {
				if hasVal && vw.on("C11") {
					vw.violate("value-revealed-without-pr", "GET /accessories reveals a value for %s (perms %v): %v", vc.name, vc.perm, val)
					return
				}
				continue
			}
			if vw.on("C09") {
				if !hasVal {
					val = zeroOf(vc.fmt)
				}
				vw.record(vc.pos, porcupine.Operation{ClientId: clientID, Input: regInput{val: fmt.Sprint(vc.pos)}, Call: int64(inv), Output: canon(val), Return: int64(ret)})
			}
		}
	case "kput":
		vc := vw.chars[op.Chars[0]]
		v := vw.valueOf(vc, op)
		if op.Same {
			v = vc.c.Value
		}
		var wire interface{} = v
		if b, ok := v.(bool); ok && vc.fmt == characteristic.FormatBool && vw.sc.Prop != "C12" && (op.K+len(vw.writes))%3 == 1 {
			// HAP lets a controller write booleans as 1 / 0
			wire = 0
			if b {
				wire = 1
			}
			vw.w.Sim.Count("probe.bool_written_as_number")
		}
		body, _ := json.Marshal(map[string]interface{}{"characteristics": []map[string]interface{}{{"aid": vc.aid, "iid": vc.c.ID, "value": wire}}})
		wr := &valWrite{pos: vc.pos, value: vw.expectStored(vc, v), origin: name, conn: c.ID, inv: s.Seq(), same: op.Same, remote: true, refused: !hasPerm(vc.perm, "pw")}
		before := canon(vc.c.Value)
		vw.writes = append(vw.writes, wr)
		m, err := cl.Do("PUT", "/characteristics", ref.CTypeJSON, body)
		wr.ret = s.Seq()
		if err != nil {
			vw.requestFailed(cl, "%s PUT %s=%s: %v", name, vc.name, canon(v), err)
			return
		}
		if v == nil {
			wr.refused = true // "value": null means no write
		}
		if vw.on("C09") && m.Status != 204 {
			vw.violate("put-status", "PUT %s=%s answered with status %d", vc.name, canon(v), m.Status)
			return
		}
		if wr.refused && vw.on("C11") && !hasPerm(vc.perm, "pw") {
			// single writer on this characteristic at the moment? only then the comparison is sound
			if !vw.concurrentWrite(wr) && canon(vc.c.Value) != before {
				vw.violate("write-without-pw-changed-value", "PUT on %s (perms %v) changed the value %s -> %s", vc.name, vc.perm, before, canon(vc.c.Value))
			}
		}
		if vw.on("C09") && !wr.refused && hasPerm(vc.perm, "pr") {
			vw.w.Sim.Count("ctor." + vc.name)
			vw.record(vc.pos, porcupine.Operation{ClientId: clientID, Input: regInput{write: true, val: wr.value}, Call: int64(wr.inv), Output: "", Return: int64(wr.ret)})
		}
	case "kbusyburst":
		// subscribe to c, then keep the connection busy with a request whose body comes in two
		// parts, and let the application change c three times (A, B, A) in between
		vc := vw.chars[op.Chars[0]]
		vd := vw.chars[op.Chars[len(op.Chars)-1]]
		sub, _ := json.Marshal(map[string]interface{}{"characteristics": []map[string]interface{}{{"aid": vc.aid, "iid": vc.c.ID, "ev": true}}})
		so := &valSubOp{conn: c.ID, pos: vc.pos, on: true, inv: s.Seq()}
		if _, err := cl.Do("PUT", "/characteristics", ref.CTypeJSON, sub); err != nil {
			vw.requestFailed(cl, "%s subscribe: %v", name, err)
			return
		}
		so.ret = s.Seq()
		so.accepted = hasPerm(vc.perm, "ev")
		vw.subs = append(vw.subs, so)
		var body []byte
		var wr *valWrite
		if vd.pos != vc.pos {
			v := vw.valueOf(vd, op)
			body, _ = json.Marshal(map[string]interface{}{"characteristics": []map[string]interface{}{{"aid": vd.aid, "iid": vd.c.ID, "value": v}}})
			wr = &valWrite{pos: vd.pos, value: vw.expectStored(vd, v), origin: name, conn: c.ID, inv: s.Seq(), remote: true, refused: !hasPerm(vd.perm, "pw")}
			vw.writes = append(vw.writes, wr)
		} else {
			body, _ = json.Marshal(map[string]interface{}{"characteristics": []map[string]interface{}{{"aid": vc.aid, "iid": vc.c.ID, "ev": true}}})
		}
		req := ref.Request("PUT", "/characteristics", ref.CTypeJSON, body)
		cut := len(req) - len(body)/2 - 1
		vw.w.Step(name, "busy burst, first part")
		if err := cl.Send(req[:cut]); err != nil {
			vw.requestFailed(cl, "%s busy burst: %v", name, err)
			return
		}
		// the request head must have reached the accessory before the application acts
		vw.w.StepWhen(name, "busy burst, application acts", func() bool { return !c.Pending(0) && c.Unread(0) == 0 })
		a := vw.valueOf(vc, op)
		op2 := op
		op2.K++
		b := vw.valueOf(vc, op2)
		if canon(toNative(vc.fmt, a)) == canon(toNative(vc.fmt, b)) {
			op2.K += 3
			b = vw.valueOf(vc, op2)
		}
		for _, v := range []interface{}{a, b, a} {
			w2 := &valWrite{pos: vc.pos, value: vw.expectStored(vc, v), origin: "app-in-" + name, conn: -1, inv: s.Seq()}
			vw.writes = append(vw.writes, w2)
			vc.c.UpdateValue(toNative(vc.fmt, v))
			w2.ret = s.Seq()
		}
		vw.w.Sim.Count("probe.burst_while_subscriber_busy")
		vw.w.Step(name, "busy burst, second part")
		if err := cl.Send(req[cut:]); err != nil {
			vw.requestFailed(cl, "%s busy burst: %v", name, err)
			return
		}
		if _, err := cl.Recv(); err != nil {
			vw.requestFailed(cl, "%s busy burst: %v", name, err)
			return
		}
		if wr != nil {
			wr.ret = s.Seq()
		}
	case "kslowput":
		// a write whose body arrives in two parts: the connection is busy with the request in between
		vc := vw.chars[op.Chars[0]]
		v := vw.valueOf(vc, op)
		body, _ := json.Marshal(map[string]interface{}{"characteristics": []map[string]interface{}{{"aid": vc.aid, "iid": vc.c.ID, "value": v}}})
		wr := &valWrite{pos: vc.pos, value: vw.expectStored(vc, v), origin: name, conn: c.ID, inv: s.Seq(), remote: true, refused: !hasPerm(vc.perm, "pw")}
		vw.writes = append(vw.writes, wr)
		req := ref.Request("PUT", "/characteristics", ref.CTypeJSON, body)
		cut := len(req) - len(body)/2 - 1
		vw.w.Step(name, "slow put, first part")
		if err := cl.Send(req[:cut]); err != nil {
			vw.requestFailed(cl, "%s slow PUT: %v", name, err)
			return
		}
		vw.w.Sim.Count("probe.connection_kept_busy")
		vw.w.Step(name, "slow put, second part")
		if err := cl.Send(req[cut:]); err != nil {
			vw.requestFailed(cl, "%s slow PUT: %v", name, err)
			return
		}
		if _, err := cl.Recv(); err != nil {
			vw.requestFailed(cl, "%s slow PUT %s=%s: %v", name, vc.name, canon(v), err)
			return
		}
		wr.ret = s.Seq()
	case "ksub", "kunsub":
		vc := vw.chars[op.Chars[0]]
		on := op.Kind == "ksub"
		var evv interface{} = on
		switch op.EvForm {
		case 1:
			evv = map[bool]int{true: 1, false: 0}[on]
		case 2:
			evv = map[bool]string{true: "1", false: "0"}[on]
		case 3:
			evv = map[bool]string{true: "true", false: "false"}[on]
		}
		body, _ := json.Marshal(map[string]interface{}{"characteristics": []map[string]interface{}{{"aid": vc.aid, "iid": vc.c.ID, "ev": evv}}})
		so := &valSubOp{conn: c.ID, pos: vc.pos, on: on, inv: s.Seq()}
		m, err := cl.Do("PUT", "/characteristics", ref.CTypeJSON, body)
		so.ret = s.Seq()
		if err != nil {
			vw.requestFailed(cl, "%s PUT ev on %s: %v", name, vc.name, err)
			return
		}
		so.accepted = hasPerm(vc.perm, "ev")
		so.nonBool = op.EvForm != 0
		vw.subs = append(vw.subs, so)
		if !hasPerm(vc.perm, "ev") && vw.on("C11") {
			var doc charsDoc
			rejected := false
			if json.Unmarshal(m.Body, &doc) == nil {
				for _, e := range doc.Characteristics {
					if st, ok := e["status"].(float64); ok && st != 0 && fmt.Sprintf("%v.%v", e["aid"], e["iid"]) == vw.idOf(vc.pos) {
						rejected = true
					}
				}
			}
			if !rejected {
				vw.violate("subscription-without-ev-not-rejected", "ev:%v on %s (perms %v) was answered with status %d and no status entry (%.80q)", on, vc.name, vc.perm, m.Status, m.Body)
			}
		}
	}
}

// requestFailed classifies a failed request: an EVENT message that the accessory wrote into
// the middle of an HTTP response is its own class.
func (vw *valWorld) requestFailed(cl *ref.Client, f string, a ...interface{}) {
	if eventInsideResponse(cl.RecvPlain) {
		vw.violate("event-inside-response", "an EVENT message was written between the parts of an HTTP response on the same connection; the response cannot be parsed ("+f+")", a...)
		return
	}
	vw.violate("request-failed", f, a...)
}

// eventInsideResponse walks the decoded stream message by message and reports whether the
// first unparsable message is an HTTP response with an EVENT start line inside it.
func eventInsideResponse(stream []byte) bool {
	for len(stream) > 0 {
		m, used, err := ref.ParseMessage(stream)
		if err == nil && m != nil {
			stream = stream[used:]
			continue
		}
		if bytes.HasPrefix(stream, []byte("HTTP/1.1 ")) {
			if i := bytes.Index(stream, []byte("\r\n\r\n")); i >= 0 {
				return bytes.Contains(stream[i:], []byte("EVENT/1.0 200 OK"))
			}
		}
		return false
	}
	return false
}

func zeroOf(format string) interface{} {
	switch {
	case format == characteristic.FormatBool:
		return false
	case isStringFormat(format):
		return ""
	default:
		return float64(0)
	}
}

// concurrentWrite reports whether another write to the same characteristic overlaps wr.
func (vw *valWorld) concurrentWrite(wr *valWrite) bool {
	for _, o := range vw.writes {
		if o != wr && o.pos == wr.pos && o.inv < wr.ret && (o.ret == 0 || o.ret > wr.inv) {
			return true
		}
	}
	return false
}

func (vw *valWorld) onEvent(conn int, m *ref.Message) {
	var doc charsDoc
	if err := json.Unmarshal(m.Body, &doc); err != nil {
		if len(m.Body) == 0 {
			return // keep-alive
		}
		vw.violate("event-bad-json", "EVENT body is not JSON: %.80q", m.Body)
		return
	}
	for _, e := range doc.Characteristics {
		id := fmt.Sprintf("%v.%v", e["aid"], e["iid"])
		pos := -1
		for _, vc := range vw.chars {
			if vw.idOf(vc.pos) == id {
				pos = vc.pos
			}
		}
		if pos < 0 {
			vw.violate("event-unknown-characteristic", "EVENT for unknown characteristic %s", id)
			return
		}
		vw.events = append(vw.events, valEvent{conn: conn, pos: pos, value: canon(e["value"]), seq: vw.w.Sim.Seq()})
	}
}

// invariants: C12 (and the permission part of C11) at every quiescent point.
func (vw *valWorld) invariants() {
	if vw.fail != "" || !vw.on("C12", "C11") {
		return
	}
	for _, vc := range vw.chars {
		v := vc.c.Value
		if !hasPerm(vc.perm, "pr") {
			if v != nil && vw.on("C11") {
				vw.violate("value-stored-without-pr", "%s (perms %v) stores the value %s", vc.name, vc.perm, canon(v))
				return
			}
			continue
		}
		if !vw.on("C12") {
			continue
		}
		if msg := typeAndRange(vc, v); msg != "" {
			vw.violate("value-type-or-range", "%s (format %s, min %v, max %v): %s", vc.name, vc.fmt, vc.min, vc.max, msg)
			return
		}
	}
}

// typeAndRange checks the dynamic type and the declared bounds of a stored value.
func typeAndRange(vc *valChar, v interface{}) string {
	if v == nil {
		return "stored value is nil although the characteristic is readable"
	}
	switch {
	case vc.fmt == characteristic.FormatBool:
		if _, ok := v.(bool); !ok {
			return fmt.Sprintf("stored value has type %T, the typed getter asserts bool", v)
		}
	case isIntFormat(vc.fmt):
		x, ok := v.(int)
		if !ok {
			return fmt.Sprintf("stored value has type %T, the typed getter asserts int", v)
		}
		if mn, ok := vc.min.(int); ok && x < mn {
			return fmt.Sprintf("stored %d is below the declared minimum %d", x, mn)
		}
		if mx, ok := vc.max.(int); ok && x > mx {
			return fmt.Sprintf("stored %d is above the declared maximum %d", x, mx)
		}
	case vc.fmt == characteristic.FormatFloat:
		x, ok := v.(float64)
		if !ok {
			return fmt.Sprintf("stored value has type %T, the typed getter asserts float64", v)
		}
		if math.IsNaN(x) || math.IsInf(x, 0) {
			return fmt.Sprintf("stored %v is not finite (the attribute database cannot be encoded)", x)
		}
		if mn, ok := vc.min.(float64); ok && x < mn {
			return fmt.Sprintf("stored %v is below the declared minimum %v", x, mn)
		}
		if mx, ok := vc.max.(float64); ok && x > mx {
			return fmt.Sprintf("stored %v is above the declared maximum %v", x, mx)
		}
	case isStringFormat(vc.fmt):
		x, ok := v.(string)
		if !ok {
			return fmt.Sprintf("stored value has type %T, the typed getter asserts string", v)
		}
		_ = utf8.ValidString(x)
	}
	return ""
}

func (vw *valWorld) finalChecks(o *Outcome) {
	switch vw.sc.Prop {
	case "C09":
		vw.checkC09(o)
	case "C10":
		vw.checkC10()
	case "C11":
		vw.checkC11()
	case "C12":
		vw.invariants()
		if vw.fail == "" {
			for _, a := range vw.accs {
				if _, err := json.Marshal(a); err != nil {
					vw.violate("database-not-encodable", "the attribute database does not encode: %v", err)
				}
			}
		}
	}
}

func (vw *valWorld) checkC09(o *Outcome) {
	// per-characteristic register linearizability
	byPos := map[int][]porcupine.Operation{}
	for i, op := range vw.hist {
		if i < len(vw.histPos) {
			byPos[vw.histPos[i]] = append(byPos[vw.histPos[i]], op)
		}
	}
	for pos, ops := range byPos {
		if len(ops) > 40 {
			ops = ops[:40]
		}
		res := porcupine.CheckOperationsTimeout(registerModel, ops, 5*time.Second)
		switch res {
		case porcupine.Illegal:
			var d []string
			for _, op := range ops {
				d = append(d, fmt.Sprintf("[%d..%d c%d %s]", op.Call, op.Return, op.ClientId, registerModel.DescribeOperation(op.Input, op.Output)))
			}
			vw.violate("value-history-not-linearizable", "%s: no order of the overlapping operations explains what was read: %s", vw.chars[pos].name, strings.Join(d, " "))
			return
		case porcupine.Unknown:
			o.Inconclusive = "porcupine timeout"
		}
	}
	// remote-update callbacks carry exactly the written value
	for _, wr := range vw.writes {
		if !wr.remote || wr.refused || wr.same || wr.conn < 0 {
			continue
		}
		vc := vw.chars[wr.pos]
		if vc.fmt == characteristic.FormatBool {
			continue
		}
		n := 0
		for _, cb := range vw.remoteCB {
			if cb.pos == wr.pos && cb.value == wr.value && cb.conn == wr.conn {
				n++
			}
		}
		unique := true
		for _, o2 := range vw.writes {
			if o2 != wr && o2.pos == wr.pos && o2.value == wr.value {
				unique = false
			}
		}
		if unique && n != 1 && !vw.equalsInitial(wr) {
			vw.violate("remote-update-callback", "controller wrote %s=%s: the remote-update callback ran %d times with that value", vc.name, wr.value, n)
			return
		}
	}
	for _, cb := range vw.remoteCB {
		ok := false
		for _, wr := range vw.writes {
			if wr.remote && wr.pos == cb.pos && wr.value == cb.value {
				ok = true
			}
		}
		if !ok {
			vw.violate("remote-update-callback-value", "remote-update callback on %s received %s, which no controller wrote", vw.chars[cb.pos].name, cb.value)
			return
		}
	}
}

func (vw *valWorld) equalsInitial(wr *valWrite) bool {
	// a write of the value the characteristic already had (e.g. the constructor default) changes nothing
	// (it may take effect before every write that had not returned when it was invoked, however
	// much earlier that one was sent: a stalled request)
	first := true
	for _, o := range vw.writes {
		if o != wr && o.pos == wr.pos && o.ret != 0 && o.ret < wr.inv {
			first = false
		}
	}
	return first && vw.initial != nil && vw.initial[wr.pos] == wr.value
}

func (vw *valWorld) checkC11() {
	// no event for a characteristic without ev; no callback caused by refused remote writes
	for _, ev := range vw.events {
		vc := vw.chars[ev.pos]
		if !hasPerm(vc.perm, "ev") {
			vw.violate("event-without-ev", "an EVENT for %s (perms %v) was delivered", vc.name, vc.perm)
			return
		}
	}
	for _, cb := range vw.remoteCB {
		vc := vw.chars[cb.pos]
		if !hasPerm(vc.perm, "pw") {
			vw.violate("write-without-pw-callback", "a remote-update callback ran for %s (perms %v)", vc.name, vc.perm)
			return
		}
	}
}

func (vw *valWorld) checkC10() {
	// every event corresponds to a write
	for _, ev := range vw.events {
		found := false
		for _, wr := range vw.writes {
			if wr.pos == ev.pos && wr.value == ev.value {
				found = true
			}
		}
		if !found {
			vw.violate("event-without-change", "connection c%d received an EVENT %s=%s that nobody wrote", ev.conn, vw.chars[ev.pos].name, ev.value)
			return
		}
	}
	conns := []int{}
	for id := range vw.connActor {
		conns = append(conns, id)
	}
	sort.Ints(conns)
	// group the writes by (characteristic, value): values are unique where the format allows,
	// otherwise the counts of the group bound the number of events
	type key struct {
		pos   int
		value string
	}
	// when writes to one characteristic overlap in time, a notification may carry the value
	// of the later write (it is read when the message is built): then events are counted
	// per characteristic instead of per value
	overlapping := map[int]bool{}
	for _, wr := range vw.writes {
		if vw.concurrentWrite(wr) {
			overlapping[wr.pos] = true
		}
	}
	groups := map[key][]*valWrite{}
	var order []key
	for _, wr := range vw.writes {
		k := key{wr.pos, wr.value}
		if overlapping[wr.pos] {
			k.value = "*"
		}
		if _, ok := groups[k]; !ok {
			order = append(order, k)
		}
		groups[k] = append(groups[k], wr)
	}
	for _, k := range order {
		vc := vw.chars[k.pos]
		for _, x := range conns {
			n := 0
			for _, ev := range vw.events {
				if ev.conn == x && ev.pos == k.pos && (ev.value == k.value || k.value == "*") {
					n++
				}
			}
			allowed, required := 0, 0
			var why string
			var first *valWrite
			for _, wr := range groups[k] {
				ch := vw.changes(wr)
				must, mustNot := vw.expectation(x, wr, ch)
				if !mustNot {
					allowed++
				} else if why == "" {
					why = vw.whyNot(x, wr, ch)
					first = wr
				}
				if must {
					required++
				}
			}
			if n > allowed || n < required {
				var dbg []string
				for _, wr := range groups[k] {
					ch := vw.changes(wr)
					must, mustNot := vw.expectation(x, wr, ch)
					dbg = append(dbg, fmt.Sprintf("write by %s conn=%d [%d..%d] same=%v refused=%v changes=%d must=%v mustNot=%v", wr.origin, wr.conn, wr.inv, wr.ret, wr.same, wr.refused, ch, must, mustNot))
				}
				for _, so := range vw.subs {
					if so.conn == x && so.pos == k.pos {
						dbg = append(dbg, fmt.Sprintf("sub on=%v [%d..%d] accepted=%v", so.on, so.inv, so.ret, so.accepted))
					}
				}
				for _, ev := range vw.events {
					if ev.conn == x && ev.pos == k.pos {
						dbg = append(dbg, fmt.Sprintf("event %s @%d", ev.value, ev.seq))
					}
				}
				for _, wr := range vw.writes {
					if wr.pos == k.pos && wr.value != k.value {
						dbg = append(dbg, fmt.Sprintf("other write %s by %s [%d..%d]", wr.value, wr.origin, wr.inv, wr.ret))
					}
				}
				vw.w.Sim.Logf("  C10 debug c%d %s=%s: %s", x, vc.name, k.value, strings.Join(dbg, " | "))
			}
			if n > allowed {
				origin := ""
				if first != nil {
					origin = first.origin
				}
				if allowed == 0 {
					vw.violate("event-unexpected:"+why, "connection c%d received an EVENT for %s=%s (written by %s) although it %s", x, vc.name, k.value, origin, why)
				} else {
					vw.violate("event-duplicated", "connection c%d received %d EVENTs for %s=%s, at most %d writes can have caused one", x, n, vc.name, k.value, allowed)
				}
				return
			}
			if n < required {
				vw.violate("event-missing", "connection c%d is subscribed to %s and open, but received %d EVENT(s) for %d change(s) to %s", x, vc.name, n, required, k.value)
				return
			}
		}
	}
}

// changes tells whether a write changed the stored value: 1 yes, 0 no, -1 unknown
// (another write overlaps it or the one before it).
func (vw *valWorld) changes(wr *valWrite) int {
	if wr.refused {
		return 0
	}
	vc := vw.chars[wr.pos]
	if vw.concurrentWrite(wr) {
		return -1
	}
	var prev *valWrite
	for _, o := range vw.writes {
		if o == wr || o.pos != wr.pos || o.refused || o.ret == 0 || o.ret > wr.inv {
			continue
		}
		if prev == nil || o.ret > prev.ret {
			prev = o
		}
	}
	prevVal := vw.initial[wr.pos]
	if prev != nil {
		if vw.concurrentWrite(prev) {
			return -1
		}
		prevVal = prev.value
	}
	if prevVal != wr.value {
		return 1
	}
	if vc.name == "ProgrammableSwitchEvent" {
		return -1 // documented to notify on every write
	}
	return 0
}

func (vw *valWorld) whyNot(x int, wr *valWrite, changes int) string {
	vc := vw.chars[wr.pos]
	switch {
	case !hasPerm(vc.perm, "ev"):
		return "characteristic does not permit events"
	case wr.conn == x:
		return "made the change itself"
	case changes == 0:
		return "value did not change"
	default:
		return "was not subscribed (never subscribed, unsubscribed, or closed)"
	}
}

// expectation implements the interval rules of the C10 oracle for connection x and write wr.
func (vw *valWorld) expectation(x int, wr *valWrite, changes int) (must, mustNot bool) {
	vc := vw.chars[wr.pos]
	if !hasPerm(vc.perm, "ev") || wr.conn == x || wr.refused || changes == 0 {
		return false, true
	}
	// subscription state of x for this characteristic relative to the change interval
	var lastBefore *valSubOp
	overlap := false
	anySubBeforeEnd := false
	for _, so := range vw.subs {
		if so.conn != x || so.pos != wr.pos || !so.accepted {
			continue
		}
		if so.nonBool {
			// a non-boolean ev may or may not be honoured: it makes the state unknown from then on
			if so.inv < wr.ret || wr.ret == 0 {
				overlap = true
				if so.on {
					anySubBeforeEnd = true
				}
			}
			continue
		}
		if so.ret != 0 && so.ret < wr.inv {
			if lastBefore == nil || so.ret > lastBefore.ret {
				lastBefore = so
			}
		} else if so.inv < wr.ret || wr.ret == 0 {
			overlap = true
		}
		if so.on && (so.inv < wr.ret || wr.ret == 0) {
			anySubBeforeEnd = true
		}
	}
	cl, closed := vw.closes[x]
	if closed && cl[1] < wr.inv {
		return false, true // closed before the change began
	}
	if !anySubBeforeEnd {
		return false, true
	}
	if overlap || (closed && cl[0] < wr.ret) {
		return false, false
	}
	if lastBefore != nil && lastBefore.on {
		if closed || changes != 1 {
			return false, false // must needs: open until the final drain, and certainly a change
		}
		return true, false
	}
	return false, true
}

func TestC09(t *testing.T) {
	drive(t, &PropDef{ID: "C09", Gen: genVal("C09"), Decode: decodeInto[ValScenario], Run: runVal, Checks: 50, CrashCapture: true})
}

func TestC10(t *testing.T) {
	drive(t, &PropDef{ID: "C10", Gen: genVal("C10"), Decode: decodeInto[ValScenario], Run: runVal, Checks: 50, CrashCapture: true})
}

func TestC11(t *testing.T) {
	drive(t, &PropDef{ID: "C11", Gen: genVal("C11"), Decode: decodeInto[ValScenario], Run: runVal, Checks: 50, CrashCapture: true})
}

func TestC12(t *testing.T) {
	drive(t, &PropDef{ID: "C12", Gen: genVal("C12"), Decode: decodeInto[ValScenario], Run: runVal, Checks: 50, CrashCapture: true})
}
