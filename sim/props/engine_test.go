package props

import (
	"encoding/json"
	"flag"
	"fmt"
	"hash/fnv"
	"os"
	"path/filepath"
	"regexp"
	"runtime"
	"sort"
	"strconv"
	"strings"
	"testing"
	"time"

	"pgregory.net/rapid"

	"verif/sim/core"
)

// Outcome is the verdict of one simulated run.
type Outcome struct {
	Violation    string         `json:"violation,omitempty"` // violation class, "" when the property held
	Detail       string         `json:"detail,omitempty"`
	Sig          string         `json:"sig,omitempty"` // what identifies the failing input / call site / history
	Shape        string         `json:"shape,omitempty"`
	Nontrivial   bool           `json:"nontrivial"`
	LogHash      uint64         `json:"log_hash"`
	Steps        int            `json:"steps"`
	SimTimeS     float64        `json:"sim_time_s"`
	Stats        map[string]int `json:"stats,omitempty"`
	Inconclusive string         `json:"inconclusive,omitempty"`
	Harness      string         `json:"harness,omitempty"` // harness trouble (never a violation)
	Log          []string       `json:"-"`
}

// PropDef describes one property check.
type PropDef struct {
	ID     string
	Gen    func(rt *rapid.T) interface{}
	Decode func(b []byte) (interface{}, error)
	Run    func(t *testing.T, sc interface{}) *Outcome
	Checks int // rapid checks per batch
	// Fixed is an optional deterministic sweep run once by worker 0 before the search.
	Fixed func(t *testing.T, emit func(sc interface{}, out *Outcome))
	// FixedAllWorkers: the sweep shards itself over VERIF_WORKER / VERIF_WORKERS.
	FixedAllWorkers bool
	// CrashCapture: the scenario is written to disk before it runs, so that a crash of the whole
	// process (a panic in a goroutine nobody recovers, e.g. net/http's background read) leaves a replay file.
	CrashCapture bool
	// CrashCaptureIf restricts CrashCapture to some scenarios (cheap codec scenarios are not worth a file write).
	CrashCaptureIf func(sc interface{}) bool
}

// KnownFinding is one entry of /verif/known_findings.json.
type KnownFinding struct {
	ID       string `json:"id"`
	Property string `json:"property"`
	Status   string `json:"status"` // "open" or "fixed"
	Class    string `json:"class"`
	SigRegex string `json:"sig_regex"`
	What     string `json:"what"`
	re       *regexp.Regexp
}

type knownFile struct {
	Findings []KnownFinding `json:"findings"`
}

// ViolationRec is a reported violation.
type ViolationRec struct {
	Class   string `json:"class"`
	Sig     string `json:"sig"`
	Detail  string `json:"detail"`
	Replay  string `json:"replay"`
	Seed    uint64 `json:"seed"`
	LogHash uint64 `json:"log_hash"`
}

// KnownHit counts how often a known finding was reproduced.
type KnownHit struct {
	ID     string `json:"id"`
	What   string `json:"what"`
	Count  int    `json:"count"`
	Replay string `json:"replay,omitempty"`
	Sig    string `json:"sig"`
}

// WorkerResult is what one worker process reports to the driver.
type WorkerResult struct {
	Property      string               `json:"property"`
	Worker        int                  `json:"worker"`
	Seed          int64                `json:"seed"`
	Evaluations   int                  `json:"evaluations"`
	SearchEvals   int                  `json:"search_evaluations"`
	ShrinkEvals   int                  `json:"shrink_evaluations"`
	Nontrivial    int                  `json:"nontrivial"`
	Shapes        []string             `json:"shapes"`
	LogHashes     int                  `json:"distinct_log_hashes"`
	Steps         int                  `json:"steps"`
	SimTimeS      float64              `json:"sim_time_s"`
	Stats         map[string]int       `json:"stats"`
	Samples       []json.RawMessage    `json:"samples"`
	Violations    []ViolationRec       `json:"violations"`
	Known         map[string]*KnownHit `json:"known"`
	Inconclusive  map[string]int       `json:"inconclusive"`
	Harness       []string             `json:"harness"`
	DetRechecked  int                  `json:"determinism_rechecked"`
	DetMismatches int                  `json:"determinism_mismatches"`
	RapidSeeds    []uint64             `json:"rapid_seeds"`
	WallS         float64              `json:"wall_s"`
	Replay        *ReplayResult        `json:"replay,omitempty"`
	Fine          bool                 `json:"fine"`
}

// ReplayFile is the on-disk replay format.
type ReplayFile struct {
	Property string          `json:"property"`
	Seed     uint64          `json:"seed"`
	Class    string          `json:"class"`
	Sig      string          `json:"sig"`
	Detail   string          `json:"detail"`
	LogHash  uint64          `json:"log_hash"`
	Scenario json.RawMessage `json:"scenario"`
	// Fine: the run used the copy of hc instrumented with yield points (finer interleavings);
	// the replay needs the same build.
	Fine bool     `json:"fine,omitempty"`
	Log  []string `json:"event_log,omitempty"`
}

// ReplayResult is the outcome of a replay.
type ReplayResult struct {
	Class      string `json:"class"`
	Sig        string `json:"sig"`
	Detail     string `json:"detail"`
	LogHash    uint64 `json:"log_hash"`
	Reproduced bool   `json:"reproduced"`
	SameLog    bool   `json:"same_log"`
}

// capTB captures rapid's verdict instead of failing the real test.
type capTB struct {
	name   string
	failed bool
	msgs   []string
}

func (c *capTB) Helper()                          {}
func (c *capTB) Name() string                     { return c.name }
func (c *capTB) Logf(f string, a ...interface{})  {}
func (c *capTB) Log(a ...interface{})             {}
func (c *capTB) Skipf(f string, a ...interface{}) {}
func (c *capTB) Skip(a ...interface{})            {}
func (c *capTB) SkipNow()                         {}
func (c *capTB) Errorf(f string, a ...interface{}) {
	c.failed = true
	c.msgs = append(c.msgs, fmt.Sprintf(f, a...))
}
func (c *capTB) Error(a ...interface{})            { c.failed = true; c.msgs = append(c.msgs, fmt.Sprint(a...)) }
func (c *capTB) Fatalf(f string, a ...interface{}) { c.Errorf(f, a...) }
func (c *capTB) Fatal(a ...interface{})            { c.Error(a...) }
func (c *capTB) FailNow()                          { c.failed = true }
func (c *capTB) Fail()                             { c.failed = true }
func (c *capTB) Failed() bool                      { return c.failed }

func envInt(name string, def int64) int64 {
	if v := os.Getenv(name); v != "" {
		if n, err := strconv.ParseInt(v, 10, 64); err == nil {
			return n
		}
	}
	return def
}

func envFloat(name string, def float64) float64 {
	if v := os.Getenv(name); v != "" {
		if n, err := strconv.ParseFloat(v, 64); err == nil {
			return n
		}
	}
	return def
}

func hashStr(s string) string {
	h := fnv.New64a()
	h.Write([]byte(s))
	return strconv.FormatUint(h.Sum64(), 36)
}

func loadKnown(prop string) []KnownFinding {
	path := os.Getenv("VERIF_KNOWN")
	if path == "" {
		return nil
	}
	b, err := os.ReadFile(path)
	if err != nil {
		return nil
	}
	var kf knownFile
	if err := json.Unmarshal(b, &kf); err != nil {
		fmt.Fprintln(os.Stderr, "known findings file unreadable:", err)
		os.Exit(2)
	}
	var out []KnownFinding
	for _, k := range kf.Findings {
		if k.Property != prop || k.Status != "open" {
			continue
		}
		k.re = regexp.MustCompile("^(?:" + k.SigRegex + ")$")
		out = append(out, k)
	}
	return out
}

func matchKnown(ks []KnownFinding, o *Outcome) *KnownFinding {
	for i := range ks {
		if ks[i].Class == o.Violation && ks[i].re.MatchString(o.Sig) {
			return &ks[i]
		}
	}
	return nil
}

func startWatchdog() {
	limit := time.Duration(envInt("VERIF_WATCHDOG_S", 120)) * time.Second
	go func() {
		last := core.Progress.Load()
		lastT := time.Now()
		for {
			time.Sleep(2 * time.Second)
			cur := core.Progress.Load()
			if cur != last {
				last, lastT = cur, time.Now()
				continue
			}
			if time.Since(lastT) > limit {
				buf := make([]byte, 1<<20)
				n := runtime.Stack(buf, true)
				fmt.Fprintf(os.Stderr, "WATCHDOG: scheduler stalled for %v: a goroutine is probably blocked on a lock the hooks do not know\n%s\n", limit, buf[:n])
				os.Exit(2)
			}
		}
	}()
}

// drive is the body of every TestCxx function.
func drive(t *testing.T, p *PropDef) {
	out := os.Getenv("VERIF_OUT")
	replay := os.Getenv("VERIF_REPLAY")
	if out == "" && replay == "" && os.Getenv("VERIF_BUDGET_S") == "" {
		// plain `go test`: a short local run
		os.Setenv("VERIF_BUDGET_S", "3")
	}
	startWatchdog()
	worker := int(envInt("VERIF_WORKER", 0))
	seed := envInt("VERIF_SEED", 1)
	fine := core.FineGrainedBuild && os.Getenv("VERIF_FINE") != ""
	res := &WorkerResult{Fine: fine, Property: p.ID, Worker: worker, Seed: seed, Stats: map[string]int{}, Known: map[string]*KnownHit{}, Inconclusive: map[string]int{}}
	start := time.Now()
	known := loadKnown(p.ID)
	replayDir := os.Getenv("VERIF_REPLAY_DIR")
	if replayDir == "" {
		replayDir = os.TempDir()
	}
	os.MkdirAll(replayDir, 0755)

	writeResult := func() {
		res.WallS = time.Since(start).Seconds()
		if out != "" {
			b, _ := json.Marshal(res)
			if err := os.WriteFile(out, b, 0644); err != nil {
				fmt.Fprintln(os.Stderr, "cannot write result:", err)
				os.Exit(2)
			}
		}
	}

	if replay != "" {
		b, err := os.ReadFile(replay)
		if err != nil {
			fmt.Fprintln(os.Stderr, "cannot read replay file:", err)
			os.Exit(2)
		}
		var rf ReplayFile
		if err := json.Unmarshal(b, &rf); err != nil {
			fmt.Fprintln(os.Stderr, "bad replay file:", err)
			os.Exit(2)
		}
		sc, err := p.Decode(rf.Scenario)
		if err != nil {
			fmt.Fprintln(os.Stderr, "bad scenario in replay file:", err)
			os.Exit(2)
		}
		o := p.Run(t, sc)
		rr := &ReplayResult{Class: o.Violation, Sig: o.Sig, Detail: o.Detail, LogHash: o.LogHash}
		rr.Reproduced = o.Violation != "" && o.Violation == rf.Class
		rr.SameLog = o.LogHash == rf.LogHash
		res.Replay = rr
		res.Evaluations = 1
		fmt.Printf("REPLAY property=%s class=%q reproduced=%v same_event_log=%v detail=%s\n", p.ID, o.Violation, rr.Reproduced, rr.SameLog, o.Detail)
		if os.Getenv("VERIF_REPLAY_LOG") != "" {
			for _, l := range o.Log {
				fmt.Println(l)
			}
		}
		writeResult()
		return
	}

	budget := time.Duration(envFloat("VERIF_BUDGET_S", 20) * float64(time.Second))
	maxEvals := int(envInt("VERIF_MAX_EVALS", 1<<40))
	maxViol := int(envInt("VERIF_MAX_VIOLATIONS", 3))
	deadline := start.Add(budget)
	shapes := map[string]struct{}{}
	logHashes := map[uint64]struct{}{}

	account := func(sc interface{}, o *Outcome, shrinking bool) {
		res.Evaluations++
		if shrinking {
			res.ShrinkEvals++
		} else {
			res.SearchEvals++
		}
		res.Steps += o.Steps
		res.SimTimeS += o.SimTimeS
		for k, v := range o.Stats {
			res.Stats[k] += v
		}
		if o.Inconclusive != "" {
			res.Inconclusive[o.Inconclusive]++
		}
		if o.Harness != "" {
			if len(res.Harness) < 10 {
				res.Harness = append(res.Harness, o.Harness)
			}
		}
		logHashes[o.LogHash] = struct{}{}
		if o.Nontrivial {
			res.Nontrivial++
			if len(shapes) < 400000 {
				shapes[hashStr(o.Shape)] = struct{}{}
			}
		}
		if len(res.Samples) < 3 && o.Nontrivial && !shrinking {
			b, _ := json.Marshal(map[string]interface{}{"scenario": sc, "outcome": o})
			if len(b) < 6000 || len(res.Samples) == 0 {
				res.Samples = append(res.Samples, b)
			}
		}
	}

	saveReplay := func(sc interface{}, o *Outcome, rseed uint64) string {
		sb, _ := json.Marshal(sc)
		rf := ReplayFile{Fine: fine, Property: p.ID, Seed: rseed, Class: o.Violation, Sig: o.Sig, Detail: o.Detail, LogHash: o.LogHash, Scenario: sb, Log: o.Log}
		if len(rf.Log) > 600 {
			rf.Log = rf.Log[len(rf.Log)-600:]
		}
		b, _ := json.MarshalIndent(rf, "", " ")
		name := fmt.Sprintf("%s-%d-%s.json", p.ID, rseed, hashStr(string(sb)))
		path := filepath.Join(replayDir, name)
		if err := os.WriteFile(path, b, 0644); err != nil {
			fmt.Fprintln(os.Stderr, "cannot write replay:", err)
			os.Exit(2)
		}
		return path
	}

	noteKnown := func(k *KnownFinding, sc interface{}, o *Outcome, rseed uint64) {
		h := res.Known[k.ID]
		if h == nil {
			h = &KnownHit{ID: k.ID, What: k.What, Sig: o.Sig}
			h.Replay = saveReplay(sc, o, rseed)
			res.Known[k.ID] = h
		}
		h.Count++
	}

	evalN := 0
	fixedSeen := map[string]bool{}
	var traceF *os.File
	if tp := os.Getenv("VERIF_TRACE_HASHES"); tp != "" {
		traceF, _ = os.Create(tp)
		defer traceF.Close()
	}
	recheckEvery := 29
	if v, err := strconv.Atoi(os.Getenv("VERIF_RECHECK_EVERY")); err == nil && v > 0 {
		recheckEvery = v
	}
	runOnce := func(sc interface{}) *Outcome {
		if p.CrashCapture && out != "" && (p.CrashCaptureIf == nil || p.CrashCaptureIf(sc)) {
			sb, _ := json.Marshal(sc)
			rf := ReplayFile{Fine: fine, Property: p.ID, Class: p.ID + ":process-crash", Sig: "process-crash", Detail: "the process died while this scenario ran", Scenario: sb}
			b, _ := json.Marshal(rf)
			os.WriteFile(out+".current", b, 0644)
		}
		o := p.Run(t, sc)
		core.Progress.Add(1) // a finished evaluation is progress too (worlds without a scheduler)
		evalN++
		if traceF != nil {
			fmt.Fprintf(traceF, "%d %d %q %d\n", evalN, o.LogHash, o.Violation, o.Steps)
		}
		if o.Harness == "" && evalN%recheckEvery == 0 {
			o2 := p.Run(t, sc)
			res.DetRechecked++
			if o2.LogHash != o.LogHash || o2.Violation != o.Violation {
				res.DetMismatches++
				fmt.Fprintf(os.Stderr, "DETERMINISM MISMATCH property=%s: %d/%q vs %d/%q (harness trouble of the re-run: %q)\n", p.ID, o.LogHash, o.Violation, o2.LogHash, o2.Violation, o2.Harness)
				if os.Getenv("VERIF_DETDIFF") != "" {
					for i := 0; i < len(o.Log) || i < len(o2.Log); i++ {
						a, b := "<end>", "<end>"
						if i < len(o.Log) {
							a = o.Log[i]
						}
						if i < len(o2.Log) {
							b = o2.Log[i]
						}
						if a != b {
							lo := i - 12
							if lo < 0 {
								lo = 0
							}
							for j := lo; j < i; j++ {
								fmt.Fprintln(os.Stderr, "   ", o.Log[j])
							}
							fmt.Fprintf(os.Stderr, "first difference at line %d:\n  A: %s\n  B: %s\n", i, a, b)
							sb, _ := json.Marshal(sc)
							fmt.Fprintf(os.Stderr, "scenario: %.1500s\n", sb)
							break
						}
					}
				}
			}
		}
		return o
	}

	if p.Fixed != nil && (worker == 0 || p.FixedAllWorkers) {
		p.Fixed(t, func(sc interface{}, o *Outcome) {
			core.Progress.Add(1)
			account(sc, o, false)
			if o.Violation != "" {
				if k := matchKnown(known, o); k != nil {
					noteKnown(k, sc, o, 0)
				} else if len(res.Violations) < maxViol && !fixedSeen[o.Violation+"|"+o.Sig] {
					fixedSeen[o.Violation+"|"+o.Sig] = true
					res.Violations = append(res.Violations, ViolationRec{Class: o.Violation, Sig: o.Sig, Detail: o.Detail, Replay: saveReplay(sc, o, 0), LogHash: o.LogHash})
				}
			}
		})
	}

	flag.Set("rapid.nofailfile", "true")
	flag.Set("rapid.shrinktime", os.Getenv("VERIF_SHRINK_TIME"))
	if os.Getenv("VERIF_SHRINK_TIME") == "" {
		flag.Set("rapid.shrinktime", "20s")
	}
	checks := p.Checks
	if checks == 0 {
		checks = 50
	}
	seenClasses := map[string]bool{}
	for batch := 0; time.Now().Before(deadline) && res.SearchEvals < maxEvals && len(res.Violations) < maxViol && p.Gen != nil; batch++ {
		rseed := uint64(seed)*1000003 + uint64(worker)*7919 + uint64(batch)*104729 + 1
		res.RapidSeeds = append(res.RapidSeeds, rseed)
		flag.Set("rapid.seed", strconv.FormatUint(rseed, 10))
		flag.Set("rapid.checks", strconv.Itoa(checks))
		tb := &capTB{name: p.ID}
		var failSc interface{}
		var failOut *Outcome
		failClass := ""
		func() {
			defer func() {
				if r := recover(); r != nil {
					res.Harness = append(res.Harness, fmt.Sprintf("rapid panicked (non-reproducible failure while shrinking?): %v", r))
					res.DetMismatches++
				}
			}()
			rapid.Check(tb, func(rt *rapid.T) {
				if failClass == "" && (time.Now().After(deadline) || res.SearchEvals >= maxEvals) {
					return
				}
				sc := p.Gen(rt)
				o := runOnce(sc)
				account(sc, o, failClass != "")
				if o.Violation == "" {
					return
				}
				if k := matchKnown(known, o); k != nil {
					noteKnown(k, sc, o, rseed)
					return
				}
				if seenClasses[o.Violation+"|"+o.Sig] {
					return // already reported in an earlier batch
				}
				if failClass == "" {
					failClass = o.Violation
				}
				if o.Violation != failClass {
					return
				}
				failSc, failOut = sc, o
				rt.Fatalf("%s: %s", o.Violation, o.Detail)
			})
		}()
		if tb.failed {
			if failOut == nil {
				res.Harness = append(res.Harness, "rapid failed without a violation: "+strings.Join(tb.msgs, " | "))
				break
			}
			seenClasses[failOut.Violation+"|"+failOut.Sig] = true
			res.Violations = append(res.Violations, ViolationRec{Class: failOut.Violation, Sig: failOut.Sig, Detail: failOut.Detail, Replay: saveReplay(failSc, failOut, rseed), Seed: rseed, LogHash: failOut.LogHash})
		}
	}
	for s := range shapes {
		res.Shapes = append(res.Shapes, s)
	}
	sort.Strings(res.Shapes)
	res.LogHashes = len(logHashes)
	writeResult()
	if out == "" {
		b, _ := json.MarshalIndent(res, "", " ")
		if len(b) > 6000 {
			b = b[:6000]
		}
		fmt.Println(string(b))
		for _, h := range res.Harness {
			t.Errorf("harness trouble: %s", h)
		}
		for _, v := range res.Violations {
			t.Errorf("violation %s: %s (replay %s)", v.Class, v.Detail, v.Replay)
		}
	}
}
