// Package ref holds implementations written from the HAP specification that share
// no code with hc: TLV8, SRP-6a client, key derivation, AEAD framing, HTTP reader.
package ref

import "errors"

// TLV is one (tag, value) item; values longer than 255 bytes are fragmented on the wire.
type TLV struct {
	Tag byte
	Val []byte
}

// TLVEncode serialises items, fragmenting values at 255 bytes.
func TLVEncode(items []TLV) []byte {
	var out []byte
	for _, it := range items {
		v := it.Val
		if len(v) == 0 {
			out = append(out, it.Tag, 0)
			continue
		}
		for len(v) > 0 {
			n := len(v)
			if n > 255 {
				n = 255
			}
			out = append(out, it.Tag, byte(n))
			out = append(out, v[:n]...)
			v = v[n:]
			if len(v) == 0 && n == 255 {
				// a value that is an exact multiple of 255 needs no terminator in HAP;
				// consecutive items of the same tag are what delimits.
			}
		}
	}
	return out
}

// TLVDecode parses items; consecutive fragments with the same tag are merged when the
// previous fragment was 255 bytes long. Separate items with the same tag that are not
// continuation fragments are concatenated too (what common controllers do).
func TLVDecode(b []byte) (map[byte][]byte, []TLV, error) {
	m := map[byte][]byte{}
	var items []TLV
	for len(b) > 0 {
		if len(b) < 2 {
			return nil, nil, errors.New("tlv8: truncated header")
		}
		tag, n := b[0], int(b[1])
		b = b[2:]
		if len(b) < n {
			return nil, nil, errors.New("tlv8: truncated value")
		}
		items = append(items, TLV{tag, append([]byte(nil), b[:n]...)})
		if _, ok := m[tag]; !ok {
			m[tag] = []byte{}
		}
		m[tag] = append(m[tag], b[:n]...)
		b = b[n:]
	}
	return m, items, nil
}

// HAP pairing TLV tags (HAP specification, table "TLV values").
const (
	TagMethod     = 0x00
	TagIdentifier = 0x01
	TagSalt       = 0x02
	TagPublicKey  = 0x03
	TagProof      = 0x04
	TagEncrypted  = 0x05
	TagState      = 0x06
	TagError      = 0x07
	TagSignature  = 0x0a
	TagPermission = 0x0b
)
