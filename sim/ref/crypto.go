package ref

import (
	"crypto/ed25519"
	"crypto/sha512"
	"encoding/binary"
	"errors"
	"io"

	"golang.org/x/crypto/chacha20poly1305"
	"golang.org/x/crypto/curve25519"
	"golang.org/x/crypto/hkdf"
)

// HKDF is HKDF-SHA-512 with a 32-byte output.
func HKDF(secret []byte, salt, info string) [32]byte {
	var out [32]byte
	r := hkdf.New(sha512.New, secret, []byte(salt), []byte(info))
	io.ReadFull(r, out[:])
	return out
}

// nonce96 builds the 96-bit nonce from an up-to-8-byte value: four zero bytes, then the
// value left-aligned in the remaining eight bytes... HAP pads the 8-byte nonce on the left.
func nonce96(n []byte) []byte {
	out := make([]byte, 12)
	copy(out[4:], n)
	return out
}

// Seal encrypts with ChaCha20-Poly1305 under an 8-byte nonce string and returns ciphertext||tag.
func Seal(key [32]byte, nonce []byte, plain, aad []byte) []byte {
	a, _ := chacha20poly1305.New(key[:])
	return a.Seal(nil, nonce96(nonce), plain, aad)
}

// Open decrypts ciphertext||tag.
func Open(key [32]byte, nonce []byte, sealed, aad []byte) ([]byte, error) {
	if len(sealed) < 16 {
		return nil, errors.New("short ciphertext")
	}
	a, _ := chacha20poly1305.New(key[:])
	return a.Open(nil, nonce96(nonce), sealed, aad)
}

// X25519 returns the public key of priv and a function computing shared secrets.
func X25519Public(priv [32]byte) [32]byte {
	var pub [32]byte
	p, _ := curve25519.X25519(priv[:], curve25519.Basepoint)
	copy(pub[:], p)
	return pub
}

func X25519Shared(priv, peer [32]byte) ([32]byte, error) {
	var out [32]byte
	s, err := curve25519.X25519(priv[:], peer[:])
	if err != nil {
		return out, err
	}
	copy(out[:], s)
	return out, nil
}

// Keypair is an Ed25519 long-term key pair.
type Keypair struct {
	Pub  ed25519.PublicKey
	Priv ed25519.PrivateKey
}

// NewKeypair derives a key pair from a 32-byte seed.
func NewKeypair(seed [32]byte) Keypair {
	priv := ed25519.NewKeyFromSeed(seed[:])
	return Keypair{Pub: priv.Public().(ed25519.PublicKey), Priv: priv}
}

// Frame layer of a verified session (HAP "Session Security").
const FrameMax = 1024

// SessionKeys derives the two directional keys from the pair-verify shared secret.
// A2C is the accessory-to-controller key, C2A the controller-to-accessory key.
func SessionKeys(shared [32]byte) (a2c, c2a [32]byte) {
	a2c = HKDF(shared[:], "Control-Salt", "Control-Read-Encryption-Key")
	c2a = HKDF(shared[:], "Control-Salt", "Control-Write-Encryption-Key")
	return
}

// FrameSeal frames payload into <=1024-byte AEAD frames starting at counter *ctr.
func FrameSeal(key [32]byte, ctr *uint64, payload []byte) []byte {
	var out []byte
	for {
		n := len(payload)
		if n > FrameMax {
			n = FrameMax
		}
		var l [2]byte
		binary.LittleEndian.PutUint16(l[:], uint16(n))
		var nonce [8]byte
		binary.LittleEndian.PutUint64(nonce[:], *ctr)
		*ctr++
		out = append(out, l[:]...)
		out = append(out, Seal(key, nonce[:], payload[:n], l[:])...)
		payload = payload[n:]
		if len(payload) == 0 {
			break
		}
	}
	return out
}

// FrameSealEmptyOK is FrameSeal but emits nothing for an empty payload.
func FrameSealNonEmpty(key [32]byte, ctr *uint64, payload []byte) []byte {
	if len(payload) == 0 {
		return nil
	}
	return FrameSeal(key, ctr, payload)
}

// FrameOpener incrementally decrypts a frame stream.
type FrameOpener struct {
	Key [32]byte
	Ctr uint64
	buf []byte
	Err error
}

// Feed appends stream bytes and returns the plaintext of every frame that is now complete.
func (o *FrameOpener) Feed(b []byte) ([]byte, error) {
	plain, _, err := o.FeedFrames(b)
	return plain, err
}

// FeedFrames is Feed that also reports the number of frames opened.
func (o *FrameOpener) FeedFrames(b []byte) ([]byte, int, error) {
	if o.Err != nil {
		return nil, 0, o.Err
	}
	o.buf = append(o.buf, b...)
	var out []byte
	frames := 0
	for {
		if len(o.buf) < 2 {
			return out, frames, nil
		}
		n := int(binary.LittleEndian.Uint16(o.buf[:2]))
		if n > FrameMax {
			o.Err = errors.New("frame longer than 1024")
			return out, frames, o.Err
		}
		if len(o.buf) < 2+n+16 {
			return out, frames, nil
		}
		var nonce [8]byte
		binary.LittleEndian.PutUint64(nonce[:], o.Ctr)
		p, err := Open(o.Key, nonce[:], o.buf[2:2+n+16], o.buf[:2])
		if err != nil {
			o.Err = errors.New("frame authentication failed")
			return out, frames, o.Err
		}
		o.Ctr++
		frames++
		out = append(out, p...)
		o.buf = o.buf[2+n+16:]
	}
}

// Buffered returns the number of bytes of an incomplete frame held back.
func (o *FrameOpener) Buffered() int { return len(o.buf) }
