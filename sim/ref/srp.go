package ref

import (
	"crypto/sha512"
	"errors"
	"math/big"
)

// RFC 5054, appendix A, 3072-bit group; generator 5.
const n3072hex = "FFFFFFFFFFFFFFFFC90FDAA22168C234C4C6628B80DC1CD129024E088A67CC74" +
	"020BBEA63B139B22514A08798E3404DDEF9519B3CD3A431B302B0A6DF25F1437" +
	"4FE1356D6D51C245E485B576625E7EC6F44C42E9A637ED6B0BFF5CB6F406B7ED" +
	"EE386BFB5A899FA5AE9F24117C4B1FE649286651ECE45B3DC2007CB8A163BF05" +
	"98DA48361C55D39A69163FA8FD24CF5F83655D23DCA3AD961C62F356208552BB" +
	"9ED529077096966D670C354E4ABC9804F1746C08CA18217C32905E462E36CE3B" +
	"E39E772C180E86039B2783A2EC07A28FB5C55DF06F4C52C9DE2BCBF695581718" +
	"3995497CEA956AE515D2261898FA051015728E5A8AAAC42DAD33170D04507A33" +
	"A85521ABDF1CBA64ECFB850458DBEF0A8AEA71575D060C7DB3970F85A6E1E4C7" +
	"ABF5AE8CDB0933D71E8C94E04A25619DCEE3D2261AD2EE6BF12FFA06D98A0864" +
	"D87602733EC86A64521F2B18177B200CBBE117577A615D6C770988C0BAD946E2" +
	"08E24FA074E5AB3143DB5BFCE0FD108E4B82D120A93AD2CAFFFFFFFFFFFFFFFF"

var (
	srpN, _ = new(big.Int).SetString(n3072hex, 16)
	srpG    = big.NewInt(5)
)

const srpUser = "Pair-Setup"

func h512(parts ...[]byte) []byte {
	h := sha512.New()
	for _, p := range parts {
		h.Write(p)
	}
	return h.Sum(nil)
}

func pad384(x *big.Int) []byte {
	b := x.Bytes()
	if len(b) >= 384 {
		return b
	}
	out := make([]byte, 384)
	copy(out[384-len(b):], b)
	return out
}

// SRPClient is an SRP-6a client for the HAP parameters. Integers inside M1 and K use
// the minimal big-endian encoding (the Stanford libsrp convention); u and k use PAD.
type SRPClient struct {
	a, A *big.Int
	K    []byte
	M1   []byte
	S    *big.Int
}

// NewSRPClient creates a client with the given 32-byte secret exponent.
func NewSRPClient(secret [32]byte) *SRPClient {
	a := new(big.Int).SetBytes(secret[:])
	return &SRPClient{a: a, A: new(big.Int).Exp(srpG, a, srpN)}
}

// PublicA returns A.
func (c *SRPClient) PublicA() []byte { return c.A.Bytes() }

// Proof computes K and M1 from the accessory's salt and B and the setup code.
func (c *SRPClient) Proof(salt, Bb []byte, password string) ([]byte, error) {
	B := new(big.Int).SetBytes(Bb)
	if new(big.Int).Mod(B, srpN).Sign() == 0 {
		return nil, errors.New("srp: B mod N == 0")
	}
	u := new(big.Int).SetBytes(h512(pad384(c.A), pad384(B)))
	if u.Sign() == 0 {
		return nil, errors.New("srp: u == 0")
	}
	k := new(big.Int).SetBytes(h512(srpN.Bytes(), pad384(srpG)))
	x := new(big.Int).SetBytes(h512(salt, h512([]byte(srpUser+":"+password))))
	// S = (B - k*g^x) ^ (a + u*x) mod N
	gx := new(big.Int).Exp(srpG, x, srpN)
	base := new(big.Int).Mul(k, gx)
	base.Sub(B, base)
	base.Mod(base, srpN)
	exp := new(big.Int).Mul(u, x)
	exp.Add(exp, c.a)
	S := new(big.Int).Exp(base, exp, srpN)
	c.S = S
	c.K = h512(S.Bytes())
	hn := h512(srpN.Bytes())
	hg := h512(srpG.Bytes())
	x1 := make([]byte, len(hn))
	for i := range hn {
		x1[i] = hn[i] ^ hg[i]
	}
	c.M1 = h512(x1, h512([]byte(srpUser)), salt, c.A.Bytes(), B.Bytes(), c.K)
	return c.M1, nil
}

// VerifyM2 checks the accessory's proof.
func (c *SRPClient) VerifyM2(m2 []byte) bool {
	want := h512(c.A.Bytes(), c.M1, c.K)
	if len(want) != len(m2) {
		return false
	}
	d := byte(0)
	for i := range want {
		d |= want[i] ^ m2[i]
	}
	return d == 0
}

// SRPModulus returns N (for building invalid public keys such as A = N).
func SRPModulus() *big.Int { return new(big.Int).Set(srpN) }

// H512 is SHA-512 of the concatenation of its arguments.
func H512(parts ...[]byte) []byte { return h512(parts...) }

// SRPProofPublic computes the client proof M1 from public values and a given session key:
// what a peer without the password can compute when the server's key degenerates
// (A = 0 mod N). abytes is the byte string the server hashes for A.
func SRPProofPublic(salt, abytes, B, K []byte) []byte {
	hn := h512(srpN.Bytes())
	hg := h512(srpG.Bytes())
	x1 := make([]byte, len(hn))
	for i := range hn {
		x1[i] = hn[i] ^ hg[i]
	}
	Bm := new(big.Int).SetBytes(B).Bytes()
	return h512(x1, h512([]byte(srpUser)), salt, abytes, Bm, K)
}
