package ref

import (
	"bytes"
	"crypto/ed25519"
	"errors"
	"fmt"
	"io"
	"net"
)

const (
	CTypeTLV  = "application/pairing+tlv8"
	CTypeJSON = "application/hap+json"
)

// Client is the specification-side peer: a controller written from the HAP specification.
// It does blocking I/O on a net.Conn; in the simulator every Read blocks until the
// scheduler delivers bytes.
type Client struct {
	Conn net.Conn
	Rand io.Reader
	// Yield is called before each protocol step (the simulator parks here).
	Yield func(what string)

	raw   []byte // undecoded bytes from the socket
	plain []byte // decoded stream not yet parsed into messages

	Enc     bool
	a2c     [32]byte
	c2a     [32]byte
	opener  FrameOpener
	sendCtr uint64

	// Events holds every EVENT/1.0 message received, in order.
	Events []*Message
	// OnSend, when set, sees every request before encryption (capture by an observer).
	OnSend func(b []byte)
	// OnEvent, when set, is called for every EVENT as it is parsed.
	OnEvent func(m *Message)
	// EOF is set once the peer closed.
	EOF bool
	// RecvRaw keeps all raw bytes received (wire oracle).
	RecvRaw []byte
	// RecvPlain keeps the whole decoded stream.
	RecvPlain []byte
	startErr error
	// EncFrom is the offset in the received byte stream at which the encrypted session began.
	EncFrom int

	// MutateM5, when set, alters the encrypted data of pair-setup M5 before it is sent (a
	// controller whose key exchange message is damaged or wrongly signed). It gets the SRP
	// session key so that it can also seal another, correctly encrypted payload.
	MutateM5 func(enc []byte, K []byte) []byte

	// Verify state
	vPriv, vPub, aPub [32]byte
	Shared            [32]byte
	vKey              [32]byte
}

func (c *Client) yield(s string) {
	if c.Yield != nil {
		c.Yield(s)
	}
}

func (c *Client) rnd32() [32]byte {
	var b [32]byte
	io.ReadFull(c.Rand, b[:])
	return b
}

// SendRaw writes bytes as they are (no session encryption).
func (c *Client) SendRaw(b []byte) error {
	_, err := c.Conn.Write(b)
	return err
}

// Send writes a request, framed under the session keys once verified.
func (c *Client) Send(b []byte) error {
	if c.OnSend != nil {
		c.OnSend(b)
	}
	if c.Enc {
		b = FrameSeal(c.c2a, &c.sendCtr, b)
	}
	_, err := c.Conn.Write(b)
	return err
}

// fill reads more bytes from the socket into the decoded stream.
func (c *Client) fill() error {
	if c.startErr != nil {
		return fmt.Errorf("controller cannot decrypt accessory frame #%d: %v", c.opener.Ctr, c.startErr)
	}
	buf := make([]byte, 4096)
	n, err := c.Conn.Read(buf)
	if n > 0 {
		c.RecvRaw = append(c.RecvRaw, buf[:n]...)
		if c.Enc {
			p, derr := c.opener.Feed(buf[:n])
			c.plain = append(c.plain, p...)
			c.RecvPlain = append(c.RecvPlain, p...)
			if derr != nil {
				return fmt.Errorf("controller cannot decrypt accessory frame #%d: %v", c.opener.Ctr, derr)
			}
		} else {
			c.plain = append(c.plain, buf[:n]...)
			c.RecvPlain = append(c.RecvPlain, buf[:n]...)
		}
	}
	if err != nil {
		if err == io.EOF {
			c.EOF = true
		}
		return err
	}
	return nil
}

// Poll parses whatever complete messages are already buffered, without blocking, and
// returns the first HTTP response if there is one.
func (c *Client) parseOne() (*Message, error) {
	for {
		m, used, err := ParseMessageEOF(c.plain, c.EOF)
		if err != nil {
			return nil, err
		}
		if m == nil {
			return nil, nil
		}
		c.plain = c.plain[used:]
		if m.Proto == "EVENT/1.0" {
			c.Events = append(c.Events, m)
			if c.OnEvent != nil {
				c.OnEvent(m)
			}
			continue
		}
		return m, nil
	}
}

// Recv blocks until the next HTTP response; EVENT messages in between are collected.
func (c *Client) Recv() (*Message, error) {
	for {
		m, err := c.parseOne()
		if err != nil || m != nil {
			return m, err
		}
		if err := c.fill(); err != nil {
			// parse what the final read may have completed
			if m, perr := c.parseOne(); perr == nil && m != nil {
				return m, nil
			}
			return nil, err
		}
	}
}

// Drain reads until the peer closes or an error occurs, collecting events.
func (c *Client) Drain() error {
	for {
		if _, err := c.parseOne(); err != nil {
			return err
		}
		if err := c.fill(); err != nil {
			c.parseOne()
			return err
		}
	}
}

// Do sends one request and waits for its response.
func (c *Client) Do(method, path, ctype string, body []byte) (*Message, error) {
	c.yield(method + " " + path)
	if err := c.Send(Request(method, path, ctype, body)); err != nil {
		return nil, err
	}
	return c.Recv()
}

// PostTLV posts a TLV8 body and decodes the TLV8 response.
func (c *Client) PostTLV(path string, items []TLV) (map[byte][]byte, *Message, error) {
	m, err := c.Do("POST", path, CTypeTLV, TLVEncode(items))
	if err != nil {
		return nil, nil, err
	}
	if m.Status != 200 {
		return nil, m, nil
	}
	t, _, err := TLVDecode(m.Body)
	if err != nil {
		return nil, m, fmt.Errorf("response body is not TLV8: %v", err)
	}
	return t, m, nil
}

// SetupResult is what a completed pair-setup yields.
type SetupResult struct {
	AccessoryID   string
	AccessoryLTPK []byte
	// ErrorCode is the TLV error the accessory answered with (0 = none) and the state it came in.
	ErrorCode  byte
	ErrorState byte
}

// ErrProto marks a deviation of the accessory from the specification.
type ErrProto struct{ Msg string }

func (e *ErrProto) Error() string { return e.Msg }

func proto(f string, a ...interface{}) error { return &ErrProto{fmt.Sprintf(f, a...)} }

func state(t map[byte][]byte) byte {
	if v := t[TagState]; len(v) > 0 {
		return v[0]
	}
	return 0
}

func errCode(t map[byte][]byte) byte {
	if v := t[TagError]; len(v) > 0 {
		return v[0]
	}
	return 0
}

// SetupExchange carries the controller-side state of one pair-setup run, exposed so an
// adversary can build individual (possibly malformed) messages.
type SetupExchange struct {
	SRP  *SRPClient
	Salt []byte
	B    []byte
	K    []byte
	// EncKey is the PS-Msg05/06 key.
	EncKey [32]byte
}

// SetupM1 is the start request.
func SetupM1() []TLV {
	return []TLV{{TagState, []byte{1}}, {TagMethod, []byte{0}}}
}

// SetupM5Payload builds the encrypted-data value of M5 under the given session key K
// (the SRP session key) for the given identity.
func SetupM5Payload(K []byte, id string, kp Keypair) []byte {
	encKey := HKDF(K, "Pair-Setup-Encrypt-Salt", "Pair-Setup-Encrypt-Info")
	return SetupM5PayloadWith(encKey, K, id, kp.Pub, kp.Priv)
}

// SetupM5PayloadWith seals an M5 sub-TLV under encKey, signing with signer over material derived from K.
func SetupM5PayloadWith(encKey [32]byte, K []byte, id string, ltpk []byte, signer ed25519.PrivateKey) []byte {
	x := HKDF(K, "Pair-Setup-Controller-Sign-Salt", "Pair-Setup-Controller-Sign-Info")
	var mat []byte
	mat = append(mat, x[:]...)
	mat = append(mat, id...)
	mat = append(mat, ltpk...)
	sig := ed25519.Sign(signer, mat)
	sub := TLVEncode([]TLV{{TagIdentifier, []byte(id)}, {TagPublicKey, ltpk}, {TagSignature, sig}})
	return Seal(encKey, []byte("PS-Msg05"), sub, nil)
}

// PairSetup runs M1..M6 against the accessory and checks everything the accessory
// produces. A TLV error answer is returned in SetupResult with a nil error; protocol
// deviations are *ErrProto.
func (c *Client) PairSetup(pin, id string, kp Keypair) (*SetupResult, error) {
	res := &SetupResult{}
	t, m, err := c.PostTLV("/pair-setup", SetupM1())
	if err != nil {
		return nil, err
	}
	if t == nil {
		return nil, proto("pair-setup M1 answered with HTTP %d", m.Status)
	}
	if e := errCode(t); e != 0 {
		res.ErrorCode, res.ErrorState = e, state(t)
		return res, nil
	}
	if state(t) != 2 {
		return nil, proto("pair-setup M2 has state %d", state(t))
	}
	salt, B := t[TagSalt], t[TagPublicKey]
	if len(salt) != 16 {
		return nil, proto("pair-setup M2 salt has %d bytes, want 16", len(salt))
	}
	if len(B) == 0 || len(B) > 384 {
		return nil, proto("pair-setup M2 public key has %d bytes", len(B))
	}
	srp := NewSRPClient(c.rnd32())
	m1, err := srp.Proof(salt, B, pin)
	if err != nil {
		return nil, proto("pair-setup M2: %v", err)
	}
	t, m, err = c.PostTLV("/pair-setup", []TLV{{TagState, []byte{3}}, {TagPublicKey, srp.PublicA()}, {TagProof, m1}})
	if err != nil {
		return nil, err
	}
	if t == nil {
		return nil, proto("pair-setup M3 answered with HTTP %d", m.Status)
	}
	if state(t) != 4 {
		return nil, proto("pair-setup M4 has state %d", state(t))
	}
	if e := errCode(t); e != 0 {
		res.ErrorCode, res.ErrorState = e, 4
		if len(t[TagProof]) != 0 || len(t[TagEncrypted]) != 0 {
			return nil, proto("pair-setup M4 error answer carries a proof or encrypted data")
		}
		return res, nil
	}
	if !srp.VerifyM2(t[TagProof]) {
		return nil, proto("pair-setup M4: accessory proof does not verify")
	}
	enc := SetupM5Payload(srp.K, id, kp)
	if c.MutateM5 != nil {
		enc = c.MutateM5(enc, srp.K)
	}
	t, m, err = c.PostTLV("/pair-setup", []TLV{{TagState, []byte{5}}, {TagEncrypted, enc}})
	if err != nil {
		return nil, err
	}
	if t == nil {
		return nil, proto("pair-setup M5 answered with HTTP %d", m.Status)
	}
	if e := errCode(t); e != 0 {
		res.ErrorCode, res.ErrorState = e, state(t)
		return res, nil
	}
	if state(t) != 6 {
		return nil, proto("pair-setup M6 has state %d", state(t))
	}
	encKey := HKDF(srp.K, "Pair-Setup-Encrypt-Salt", "Pair-Setup-Encrypt-Info")
	sub, err := Open(encKey, []byte("PS-Msg06"), t[TagEncrypted], nil)
	if err != nil {
		return nil, proto("pair-setup M6: encrypted data does not open under PS-Msg06: %v", err)
	}
	st, _, err := TLVDecode(sub)
	if err != nil {
		return nil, proto("pair-setup M6: sub-TLV: %v", err)
	}
	accID, accLTPK, sig := st[TagIdentifier], st[TagPublicKey], st[TagSignature]
	if len(accLTPK) != 32 || len(sig) != 64 || len(accID) == 0 {
		return nil, proto("pair-setup M6: id/ltpk/signature have %d/%d/%d bytes", len(accID), len(accLTPK), len(sig))
	}
	x := HKDF(srp.K, "Pair-Setup-Accessory-Sign-Salt", "Pair-Setup-Accessory-Sign-Info")
	var mat []byte
	mat = append(mat, x[:]...)
	mat = append(mat, accID...)
	mat = append(mat, accLTPK...)
	if !ed25519.Verify(ed25519.PublicKey(accLTPK), mat, sig) {
		return nil, proto("pair-setup M6: accessory signature does not verify")
	}
	res.AccessoryID = string(accID)
	res.AccessoryLTPK = accLTPK
	return res, nil
}

// VerifyM1 creates the start request of pair-verify with a fresh ephemeral key.
func (c *Client) VerifyM1() []TLV {
	c.vPriv = c.rnd32()
	c.vPub = X25519Public(c.vPriv)
	return []TLV{{TagState, []byte{1}}, {TagPublicKey, c.vPub[:]}}
}

// VerifyAbsorbM2 processes the accessory's start response; accLTPK may be nil (not checked).
func (c *Client) VerifyAbsorbM2(t map[byte][]byte, accLTPK []byte) (accID string, err error) {
	if state(t) != 2 {
		return "", proto("pair-verify M2 has state %d", state(t))
	}
	if e := errCode(t); e != 0 {
		return "", proto("pair-verify M2 carries error %d", e)
	}
	ap := t[TagPublicKey]
	if len(ap) != 32 {
		return "", proto("pair-verify M2 public key has %d bytes", len(ap))
	}
	copy(c.aPub[:], ap)
	c.Shared, err = X25519Shared(c.vPriv, c.aPub)
	if err != nil {
		return "", proto("pair-verify M2: %v", err)
	}
	c.vKey = HKDF(c.Shared[:], "Pair-Verify-Encrypt-Salt", "Pair-Verify-Encrypt-Info")
	sub, err := Open(c.vKey, []byte("PV-Msg02"), t[TagEncrypted], nil)
	if err != nil {
		return "", proto("pair-verify M2: encrypted data does not open under PV-Msg02")
	}
	st, _, err := TLVDecode(sub)
	if err != nil {
		return "", proto("pair-verify M2: sub-TLV: %v", err)
	}
	id, sig := st[TagIdentifier], st[TagSignature]
	if accLTPK != nil {
		var mat []byte
		mat = append(mat, c.aPub[:]...)
		mat = append(mat, id...)
		mat = append(mat, c.vPub[:]...)
		if len(sig) != 64 || !ed25519.Verify(ed25519.PublicKey(accLTPK), mat, sig) {
			return "", proto("pair-verify M2: accessory signature does not verify")
		}
	}
	return string(id), nil
}

// VerifyM3With builds the finish request: sub-TLV {id, sig} sealed under key; the signature
// is made with signer over cPub | id | aPub unless material is given.
func (c *Client) VerifyM3With(key [32]byte, id string, signer ed25519.PrivateKey, material []byte) []TLV {
	if material == nil {
		material = append(material, c.vPub[:]...)
		material = append(material, id...)
		material = append(material, c.aPub[:]...)
	}
	sig := ed25519.Sign(signer, material)
	sub := TLVEncode([]TLV{{TagIdentifier, []byte(id)}, {TagSignature, sig}})
	return []TLV{{TagState, []byte{3}}, {TagEncrypted, Seal(key, []byte("PV-Msg03"), sub, nil)}}
}

// VerifyKey returns the PV-Msg02/03 key of the current exchange.
func (c *Client) VerifyKey() [32]byte { return c.vKey }

// VerifyPub returns the controller and accessory ephemeral public keys.
func (c *Client) VerifyPub() (cPub, aPub [32]byte) { return c.vPub, c.aPub }

// StartSession switches the client to the encrypted session derived from shared.
func (c *Client) StartSession(shared [32]byte) {
	c.a2c, c.c2a = SessionKeys(shared)
	c.opener = FrameOpener{Key: c.a2c}
	c.sendCtr = 0
	c.Enc = true
	// bytes that arrived in the same segment after the last plaintext response already
	// belong to the encrypted session (e.g. a keep-alive sent right after M4)
	left := c.plain
	c.plain = nil
	c.RecvPlain = c.RecvPlain[:len(c.RecvPlain)-len(left)]
	c.EncFrom = len(c.RecvRaw) - len(left)
	if len(left) > 0 {
		p, err := c.opener.Feed(left)
		c.plain = append(c.plain, p...)
		c.RecvPlain = append(c.RecvPlain, p...)
		if err != nil {
			c.startErr = err
		}
	}
}

// SessionState exposes keys and counters (for the adversary and the wire oracle).
func (c *Client) SessionState() (a2c, c2a [32]byte, sendCtr, recvCtr uint64) {
	return c.a2c, c.c2a, c.sendCtr, c.opener.Ctr
}

// SetSendCounter overrides the next frame counter (fault injection).
func (c *Client) SetSendCounter(n uint64) { c.sendCtr = n }

// PairVerify runs M1..M4 and, on success, switches to the encrypted session.
// ok=false with a nil error means the accessory answered with a TLV error or HTTP error.
func (c *Client) PairVerify(id string, kp Keypair, accLTPK []byte) (bool, error) {
	t, m, err := c.PostTLV("/pair-verify", c.VerifyM1())
	if err != nil {
		return false, err
	}
	if t == nil {
		return false, proto("pair-verify M1 answered with HTTP %d", m.Status)
	}
	if _, err := c.VerifyAbsorbM2(t, accLTPK); err != nil {
		return false, err
	}
	t, m, err = c.PostTLV("/pair-verify", c.VerifyM3With(c.vKey, id, kp.Priv, nil))
	if err != nil {
		var pe *ErrProto
		if errors.As(err, &pe) {
			return false, err
		}
		return false, fmt.Errorf("pair-verify M4 not readable as plaintext HTTP: %w", err)
	}
	if t == nil {
		return false, nil
	}
	if state(t) != 4 {
		return false, proto("pair-verify M4 has state %d", state(t))
	}
	if errCode(t) != 0 {
		return false, nil
	}
	c.StartSession(c.Shared)
	return true, nil
}

// HasBuffered reports whether undecoded or unparsed bytes are pending.
func (c *Client) HasBuffered() bool { return len(c.plain) > 0 || c.opener.Buffered() > 0 }

// PlainPending returns the unparsed decoded bytes.
func (c *Client) PlainPending() []byte { return bytes.Clone(c.plain) }
