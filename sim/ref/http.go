package ref

import (
	"bytes"
	"errors"
	"strconv"
	"strings"
)

// Message is one HTTP/1.1 response or EVENT/1.0 notification parsed from a byte stream.
type Message struct {
	Proto   string // "HTTP/1.1" or "EVENT/1.0"
	Status  int
	Headers map[string]string // lower-cased names
	Body    []byte
	Raw     []byte
}

// ParseMessage parses one message from the front of buf. It returns (nil, 0, nil) when
// buf does not yet hold a complete message, and an error when buf cannot be a prefix of a
// well-formed message.
func ParseMessage(buf []byte) (*Message, int, error) { return ParseMessageEOF(buf, false) }

// ParseMessageEOF is ParseMessage that knows whether the peer has closed: a response with
// "Connection: close" and no length is delimited by the end of the stream.
func ParseMessageEOF(buf []byte, eof bool) (*Message, int, error) {
	i := bytes.Index(buf, []byte("\r\n\r\n"))
	if i < 0 {
		if len(buf) > 0 {
			// check the start line so far is plausible
			pre := buf
			if len(pre) > 5 {
				pre = pre[:5]
			}
			if !bytes.HasPrefix([]byte("HTTP/"), pre) && !bytes.HasPrefix([]byte("EVENT"), pre) {
				return nil, 0, errors.New("not an HTTP or EVENT start line: " + strconv.Quote(string(buf[:min(len(buf), 40)])))
			}
		}
		if len(buf) > 1<<16 {
			return nil, 0, errors.New("header too long")
		}
		return nil, 0, nil
	}
	head := string(buf[:i])
	lines := strings.Split(head, "\r\n")
	sl := strings.SplitN(lines[0], " ", 3)
	if len(sl) < 2 {
		return nil, 0, errors.New("bad status line " + strconv.Quote(lines[0]))
	}
	m := &Message{Proto: sl[0], Headers: map[string]string{}}
	if m.Proto != "HTTP/1.1" && m.Proto != "EVENT/1.0" && m.Proto != "HTTP/1.0" {
		return nil, 0, errors.New("bad protocol " + strconv.Quote(sl[0]))
	}
	st, err := strconv.Atoi(sl[1])
	if err != nil {
		return nil, 0, errors.New("bad status " + strconv.Quote(lines[0]))
	}
	m.Status = st
	for _, l := range lines[1:] {
		j := strings.Index(l, ":")
		if j < 0 {
			return nil, 0, errors.New("bad header line " + strconv.Quote(l))
		}
		m.Headers[strings.ToLower(strings.TrimSpace(l[:j]))] = strings.TrimSpace(l[j+1:])
	}
	rest := buf[i+4:]
	used := i + 4
	if strings.Contains(strings.ToLower(m.Headers["transfer-encoding"]), "chunked") {
		var body []byte
		for {
			j := bytes.Index(rest, []byte("\r\n"))
			if j < 0 {
				return nil, 0, nil
			}
			szs := string(rest[:j])
			if k := strings.Index(szs, ";"); k >= 0 {
				szs = szs[:k]
			}
			sz, err := strconv.ParseInt(strings.TrimSpace(szs), 16, 32)
			if err != nil || sz < 0 {
				return nil, 0, errors.New("bad chunk size " + strconv.Quote(szs))
			}
			if len(rest) < j+2+int(sz)+2 {
				return nil, 0, nil
			}
			body = append(body, rest[j+2:j+2+int(sz)]...)
			if string(rest[j+2+int(sz):j+2+int(sz)+2]) != "\r\n" {
				return nil, 0, errors.New("chunk not terminated")
			}
			rest = rest[j+2+int(sz)+2:]
			used += j + 2 + int(sz) + 2
			if sz == 0 {
				break
			}
		}
		m.Body = body
	} else if cl, ok := m.Headers["content-length"]; ok {
		n, err := strconv.Atoi(cl)
		if err != nil || n < 0 {
			return nil, 0, errors.New("bad content-length")
		}
		if len(rest) < n {
			return nil, 0, nil
		}
		m.Body = append([]byte(nil), rest[:n]...)
		used += n
	} else if m.Status == 204 || m.Status == 304 || (m.Status >= 100 && m.Status < 200) {
		// no body
	} else if strings.EqualFold(m.Headers["connection"], "close") {
		if !eof {
			return nil, 0, nil
		}
		m.Body = append([]byte(nil), rest...)
		used += len(rest)
	} else {
		return nil, 0, errors.New("response without content-length or chunked encoding (status " + strconv.Itoa(m.Status) + ")")
	}
	m.Raw = append([]byte(nil), buf[:used]...)
	return m, used, nil
}

// Request builds an HTTP/1.1 request.
func Request(method, path, ctype string, body []byte) []byte {
	var b bytes.Buffer
	b.WriteString(method + " " + path + " HTTP/1.1\r\nHost: acc.local\r\n")
	if body != nil || method == "POST" || method == "PUT" {
		if ctype != "" {
			b.WriteString("Content-Type: " + ctype + "\r\n")
		}
		b.WriteString("Content-Length: " + strconv.Itoa(len(body)) + "\r\n")
	}
	b.WriteString("\r\n")
	b.Write(body)
	return b.Bytes()
}
