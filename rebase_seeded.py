#!/usr/bin/env python3
"""Re-bases stored seeded patches that no longer apply cleanly to /repo HEAD (3-way), keeping the original."""
import json, os, shutil, subprocess, sys, tempfile
ROOT = os.path.dirname(os.path.abspath(__file__))
env = dict(os.environ); env.update({"GOFLAGS": "-mod=mod", "GOPROXY": "off", "GOSUMDB": "off"})
for name in sorted(os.listdir(os.path.join(ROOT, "seeded"))):
    d = os.path.join(ROOT, "seeded", name)
    patch = os.path.join(d, "patch.diff")
    if not os.path.isfile(patch):
        continue
    if subprocess.run(["git", "-C", "/repo", "apply", "--check", patch], stderr=subprocess.DEVNULL).returncode == 0:
        continue
    wt = tempfile.mkdtemp(prefix="rebase-", dir="/tmp/scratch"); os.rmdir(wt)
    subprocess.run(["git", "-C", "/repo", "worktree", "add", "-f", "--detach", wt, "HEAD"], check=True, stdout=subprocess.DEVNULL, stderr=subprocess.DEVNULL)
    try:
        r = subprocess.run(["git", "-C", wt, "apply", "--3way", patch], stdout=subprocess.PIPE, stderr=subprocess.STDOUT, text=True)
        b = subprocess.run("go build ./...", shell=True, cwd=wt, env=env, stdout=subprocess.PIPE, stderr=subprocess.STDOUT, text=True)
        if r.returncode != 0 or b.returncode != 0 or "conflict" in r.stdout.lower():
            print("MANUAL", name, r.stdout[-300:], b.stdout[-300:]); continue
        diff = subprocess.run(["git", "-C", wt, "diff", "HEAD"], stdout=subprocess.PIPE, text=True).stdout
        if not os.path.exists(os.path.join(d, "patch.orig.diff")):
            shutil.copy(patch, os.path.join(d, "patch.orig.diff"))
        open(patch, "w").write(diff)
        m = json.load(open(os.path.join(d, "meta.json")))
        m["note"] = "patch.diff was re-based (3-way) onto a later /repo HEAD; patch.orig.diff is the change as delivered"
        json.dump(m, open(os.path.join(d, "meta.json"), "w"), indent=1)
        print("rebased", name)
    finally:
        subprocess.run(["git", "-C", "/repo", "worktree", "remove", "--force", wt], stdout=subprocess.DEVNULL, stderr=subprocess.DEVNULL)
        subprocess.run(["git", "-C", "/repo", "worktree", "prune"])
